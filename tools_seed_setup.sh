#!/bin/bash
# usage: tools_seed_setup.sh <prop-id> <n>  -> creates /tmp/seedwt-<id>-<n> (worktree of /repo HEAD without contract files)
set -e
id=$1; n=$2; wt=/tmp/seedwt-$id-$n
git -C /repo worktree remove --force $wt 2>/dev/null || true
git -C /repo worktree add -q --detach $wt HEAD
cd $wt
find . -name 'zz_verif_contracts*.go' -delete
git -c user.name=builder -c user.email=b@x commit -qam "strip" || true
mkdir -p /tmp/seedout-$id-$n
python3 - "$id" > /tmp/seedout-$id-$n/PROPERTY.json <<'PY'
import json,sys
for l in open('/verif/properties.jsonl'):
    d=json.loads(l)
    if d['id']==sys.argv[1]:
        print(json.dumps(d,indent=1))
PY
echo $wt
