//go:build verif

package opentype

// Contracts for contract-based deductive verification (comment-only; see /verif/DESIGN.md).
// Property C19: written font files read back unchanged; writing does not modify the caller's buffers.
//
// be32p: big-endian word k of t, zero padded beyond len(t) ("treat the data as though it contains
// zero padding to a length that is a multiple of four", OpenType spec, table checksums).
//@ spec byteOr0(t []byte, j int) uint32 = ite(j < len(t), uint32(t[j]), uint32(0))
//@ spec be32p(t []byte, k int) uint32 = byteOr0(t, 4*k)<<24 | byteOr0(t, 4*k+1)<<16 | byteOr0(t, 4*k+2)<<8 | byteOr0(t, 4*k+3)
//@ spec cksum(t []byte, lo int, hi int) uint32 = ite(hi <= lo, uint32(0), cksum(t, lo, hi-1) + be32p(t, hi-1))
//
//@ func checksum C19
//@   mode bv
//@   ensures [sum] result == cksum(table, 0, (len(table)+3)/4)
//@   ensures [sum-aligned] implies(len(table)%4 == 0, result == cksum(table, 0, len(table)/4))
//@   ensures [sum-padded] implies(len(table)%4 != 0, result == cksum(table, 0, len(table)/4+1))
//@   ensures [words] (len(table)+3)/4 == len(table)/4 + ite(len(table)%4 != 0, 1, 0)
//@   modifies nothing
//@   loop 1 invariant [i-range] 0 <= i && i <= n && n == len(table)/4
//@   loop 1 invariant [partial-sum] sum == cksum(table, 0, i)
