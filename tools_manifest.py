#!/usr/bin/env python3
# Regenerates MANIFEST.json from the per-property table below (kept in one place so it stays valid).
import json, subprocess, os
BASE = json.load(open('/root/.vp/BASELINE.json'))
claimed = json.load(open('/verif/manifest_props.json'))
allids = [json.loads(l)['id'] for l in open('/verif/properties.jsonl')]
checks = []
for pid in allids:
    c = claimed.get(pid)
    if not c or c.get('na'):
        continue
    checks.append({
        "property_id": pid,
        "quick_cmd": f"bin/check {pid} quick",
        "thorough_cmd": f"bin/check {pid} thorough",
        "evidence_file": f"/verif/evidence/{pid}.json",
        "replay_cmd_template": "cat {path}",
        "engine": "govc",
        "level_claimed": {"category": "proof", "text": c["text"], "design_ref": c.get("design_ref", "DESIGN.md section 3")},
        "level_note": c["note"],
        "technique": "contract-based deductive verification: contracts in //go:build verif comment files on the real functions, VCs generated from go/ssa by govc, discharged by z3/cvc5",
    })
na = []
for pid in allids:
    c = claimed.get(pid)
    if not c:
        na.append({"property_id": pid, "reason": "no check registered yet: contracts for this property are not written (work in progress; see DESIGN.md section 3 for the plan)"})
    elif c.get('na'):
        na.append({"property_id": pid, "reason": c['na']})
hooks = subprocess.run(['git','-C','/repo','log','--format=%H %s'],capture_output=True,text=True).stdout.strip().split('\n')
hook_commits = [l.split()[0] for l in hooks if ' verif:' in l or ' verif hook' in l]
m = {
 "version": 1,
 "setup_cmd": "cd /verif/govc && GOFLAGS=-mod=mod GOPROXY=off GOSUMDB=off GOTOOLCHAIN=local go build -o ../bin/govc .",
 "hooks": {
   "guard": "verif",
   "enable": "go build -tags verif (govc loads /repo with BuildFlags -tags=verif; the only guarded files are comment-only <pkg>/zz_verif_contracts.go)",
   "baseline_off_cmd": BASE["cmd"],
   "source_commits": hook_commits,
   "add_only": True
 },
 "engines": [{"name": "govc", "path": "/verif/govc", "serves_properties": [c["property_id"] for c in checks],
              "kind_free_text": "VC generator for Go written for this task: go/packages + go/ssa (NaiveForm) -> SMT-LIB obligations per function from //@ contracts -> z3-new | cvc5 | z3 race; counterexample replay through go test -overlay"}],
 "checks": checks,
 "not_applicable": na,
 "notes": "Exit 0 = every claimed obligation (listed in /verif/expected/<id>.txt) discharged on /repo's current tree; exit 1 + VIOLATION line per claimed obligation that is not discharged; known findings in /verif/known_findings.jsonl."
}
json.dump(m, open('/verif/MANIFEST.json','w'), indent=1)
print("checks:", [c["property_id"] for c in checks], "na:", len(na))
