#!/bin/bash
# Must-fail corpus: every seeded change (/verif/seeded/*/patch.diff) and every reverted fix (/verif/selftest/mutants/*.patch)
# is applied to a scratch copy of /repo (never to /repo itself); the quick check of its property must report a violation.
# usage: tools_selftest.sh [name-filter]     output: one line per mutant, summary at the end; exit 1 if an expected
# detection is missing (see selftest/expected_misses.txt for the mutants known to be outside the reach of the checks).
export GOFLAGS=-mod=mod GOPROXY=off GOSUMDB=off GOTOOLCHAIN=local
filter=$1
scratch=$(mktemp -d /var/tmp/govc-selftest.XXXXXX)
trap 'rm -rf $scratch' EXIT
/verif/bin/check C19 quick >/dev/null 2>&1   # make sure bin/govc is built
caught=0; missed=0; unexpected=0
run() { # name prop patch
  name=$1; prop=$2; patch=$3
  rm -rf $scratch/repo $scratch/out; mkdir -p $scratch/out
  rsync -a --exclude .git /repo/ $scratch/repo/
  if ! (cd $scratch/repo && patch -p1 -s < $patch >/dev/null 2>&1); then echo "$name: patch does not apply"; unexpected=$((unexpected+1)); return; fi
  GOVC_REPO=$scratch/repo GOVC_OUT=$scratch/out /verif/bin/govc check $prop quick > $scratch/log 2>&1; rc=$?
  nv=$(grep -c '^VIOLATION' $scratch/log)
  if [ $rc -eq 1 ] && [ $nv -gt 0 ]; then
    caught=$((caught+1)); echo "$name: CAUGHT by $prop ($(grep '^VIOLATION' $scratch/log | head -1 | sed 's/.*obligation=\([^ ]*\).*/\1/'))"
  elif grep -qx "$name" /verif/selftest/expected_misses.txt 2>/dev/null; then
    missed=$((missed+1)); echo "$name: missed (listed in expected_misses.txt)"
  else
    unexpected=$((unexpected+1)); echo "$name: NOT CAUGHT by $prop (rc=$rc) -- unexpected"
  fi
}
for d in /verif/seeded/*/; do
  name=$(basename $d); [ -n "$filter" ] && [[ $name != *$filter* ]] && continue
  run $name ${name%%-*} $d/patch.diff
done
for p in /verif/selftest/mutants/*.patch; do
  name=$(basename $p .patch); [ -n "$filter" ] && [[ $name != *$filter* ]] && continue
  run $name ${name%%_*} $p
done
echo "selftest: $caught caught, $missed expected misses, $unexpected unexpected"
[ $unexpected -eq 0 ]
