#!/bin/bash
# usage: tools_seed_verify.sh <prop> <n> <k> <name>   verifies /tmp/seedout-<prop>-<n>/<k> and stores it as /verif/seeded/<name>
export GOFLAGS=-mod=mod GOPROXY=off GOSUMDB=off GOTOOLCHAIN=local
prop=$1; n=$2; k=$3; name=$4
src=/tmp/seedout-$prop-$n/$k
wt=/tmp/seedverify-$name
git -C /repo worktree remove --force $wt 2>/dev/null
git -C /repo worktree add -q --detach $wt HEAD || exit 2
cd $wt
place=$(head -1 $src/demo_test.go | sed -n 's,^// place in: *,,p' | tr -d ' \r')
[ -z "$place" ] && { echo "no place-in line"; exit 2; }
cp $src/demo_test.go $wt/$place/zz_seed_demo_test.go
log=/tmp/seedverify-$name.log; : > $log
echo "== clean + demo" >> $log
go test -vet=off -count=1 -run 'TestSeed' ./$place >> $log 2>&1; a=$?
git apply $src/patch.diff >> $log 2>&1 || { echo "patch does not apply"; cat $log | tail -5; git -C /repo worktree remove --force $wt; exit 2; }
echo "== patched: build + full suite (without demo)" >> $log
mv $wt/$place/zz_seed_demo_test.go /tmp/zz_seed_demo_$name.go
go build ./... >> $log 2>&1; b=$?
go test -vet=off -count=1 ./... >> $log 2>&1; c=$?
mv /tmp/zz_seed_demo_$name.go $wt/$place/zz_seed_demo_test.go
echo "== patched + demo" >> $log
go test -vet=off -count=1 -run 'TestSeed' ./$place >> $log 2>&1; d=$?
cd /; git -C /repo worktree remove --force $wt
echo "$name: clean+demo rc=$a (want 0), build rc=$b (want 0), suite rc=$c (want 0), patched+demo rc=$d (want !=0)"
if [ $a -eq 0 ] && [ $b -eq 0 ] && [ $c -eq 0 ] && [ $d -ne 0 ]; then
  mkdir -p /verif/seeded/$name
  cp $src/patch.diff $src/demo_test.go /verif/seeded/$name/
  python3 - "$src/meta.json" "/verif/seeded/$name/meta.json" "$prop" "$place" <<'PY'
import json,sys
m=json.load(open(sys.argv[1]))
out={"property":sys.argv[3],"breaks":m.get("summary"),"needs":m.get("needs"),"files":m.get("files"),"functions":m.get("functions"),
     "demo_package":sys.argv[4],
     "confirmed_by_me":["clean worktree + demo: go test -run TestSeed ./%s -> PASS"%sys.argv[4],"patch applied: go build ./... OK; go test -vet=off -count=1 ./... (all packages) PASS","patch applied + demo -> FAIL"],
     "author_ran":m.get("ran")}
json.dump(out,open(sys.argv[2],'w'),indent=1)
PY
  echo "  stored /verif/seeded/$name"
else
  tail -20 $log
fi
