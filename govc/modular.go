package main

import (
	"fmt"
	"go/ast"
	"go/token"
	"go/types"
	"strings"

	"golang.org/x/tools/go/ssa"
)

// paramNames of a callee: from ssa params, the contract, or the signature.
func paramNames(fn *ssa.Function, ct *Contract, sig *types.Signature, hasRecv bool) []string {
	var names []string
	if ct != nil && len(ct.Params) > 0 {
		return ct.Params
	}
	if fn != nil && len(fn.Params) > 0 {
		for _, p := range fn.Params {
			names = append(names, p.Name())
		}
		return names
	}
	if ct != nil && len(ct.Params) > 0 {
		return ct.Params
	}
	if hasRecv || sig.Recv() != nil {
		n := "recv"
		if sig.Recv() != nil && sig.Recv().Name() != "" {
			n = sig.Recv().Name()
		}
		names = append(names, n)
	}
	for i := 0; i < sig.Params().Len(); i++ {
		n := sig.Params().At(i).Name()
		if n == "" || n == "_" {
			n = fmt.Sprintf("arg%d", i)
		}
		names = append(names, n)
	}
	return names
}

// calleeEnv: environment for evaluating a callee's contract at a call site.
func (e *Engine) calleeEnv(st, old *State, ct *Contract, fn *ssa.Function, args []Val) *Env {
	env := &Env{e: e, st: st, old: old, bound: map[string]Val{}}
	var sig *types.Signature
	if fn != nil {
		sig = fn.Signature
	}
	names := paramNames(fn, ct, sig, false)
	for i, n := range names {
		if i < len(args) {
			env.bound[n] = args[i]
			env.bound[n+"0"] = args[i]
		}
	}
	// package scope of the contract file
	for path, p := range e.w.pkgs {
		if strings.TrimPrefix(path, modPrefix) == ct.PkgRel {
			env.pkg = p.Types
			env.pkgRel = ct.PkgRel
		}
	}
	if env.pkg == nil && fn != nil && fn.Pkg != nil {
		env.pkg = fn.Pkg.Pkg
		env.pkgRel = strings.TrimPrefix(env.pkg.Path(), modPrefix)
	}
	return env
}

func bindResults(env *Env, res Val, fn *ssa.Function, sig *types.Signature) {
	if res == nil {
		return
	}
	if tv, ok := res.(TupleV); ok {
		for i, v := range tv.Vs {
			env.bound[fmt.Sprintf("result%d", i)] = v
			if sig != nil && i < sig.Results().Len() && sig.Results().At(i).Name() != "" && sig.Results().At(i).Name() != "_" {
				env.bound[sig.Results().At(i).Name()] = v
			}
		}
		if len(tv.Vs) > 0 {
			env.bound["result"] = tv.Vs[0]
		}
		return
	}
	env.bound["result"] = res
	env.bound["result0"] = res
	if sig != nil && sig.Results().Len() == 1 && sig.Results().At(0).Name() != "" && sig.Results().At(0).Name() != "_" {
		env.bound[sig.Results().At(0).Name()] = res
	}
}

// ghostAsserts: ghost assertions of the caller's contract placed before the ord-th call of short: proved here,
// then assumed.
func (e *Engine) ghostAsserts(fr *Frame, st *State, short string, ord int, pos token.Pos, args []Val) {
	if fr == nil || !fr.top || e.contract == nil || e.quiet != 0 {
		return
	}
	for i, aa := range e.contract.Asserts {
		name := short
		if j := strings.LastIndex(short, "."); j >= 0 {
			name = short[j+1:]
		}
		if (aa.Callee == short || aa.Callee == name) && aa.N == ord {
			aenv := e.envAt(fr, st, pos)
			// arg0, arg1, ...: the actual arguments of the call the assertion is attached to (receiver first)
			for k, a := range args {
				aenv.bound[fmt.Sprintf("arg%d", k)] = a
			}
			goal := e.evalClause(aenv, aa.Clause)
			e.oblige("assert", fmt.Sprintf("assert[%s#%d/%s]", name, ord, clauseName(aa.Clause, i)), st.guard, goal, pos)
			e.assumps = append(e.assumps, Assump{T: Implies(st.guard, goal), Tag: "lemma"})
		}
	}
}

// callContract: modular treatment of a call.
func (e *Engine) callContract(fr *Frame, st *State, callee *ssa.Function, ct *Contract, key string, args []Val, sig *types.Signature, rt types.Type, pos token.Pos, iface bool) Val {
	short := key
	if i := strings.LastIndex(key, "/"); i >= 0 {
		short = key[i+1:]
	}
	ord := e.ordinal("call " + short)
	// a callee verified with the other integer semantics may be used only if the clauses the caller sees
	// mean the same in both (no arithmetic: comparisons, lengths, constants, boolean structure only)
	// (such a requires clause becomes an obligation that cannot be discharged; such an ensures clause is not assumed)
	cross := ct.ModeSet && ct.Mode != e.ar.mode && !ct.Trusted
	e.ghostAsserts(fr, st, short, ord, pos, args)
	pre := st.clone()
	env := e.calleeEnv(pre, pre, ct, callee, args)
	if callee == nil {
		// interface method: names from contract params or signature (+recv)
		names := ct.Params
		if len(names) == 0 {
			names = paramNames(nil, ct, sig, true)
		}
		for i, n := range names {
			if i < len(args) {
				env.bound[n] = args[i]
				env.bound[n+"0"] = args[i]
			}
		}
	}
	for i, c := range ct.Requires {
		goal := e.evalClause(env, c)
		if strings.HasPrefix(c.Label, "data-") {
			// representation invariant of package-level tables: established by the ground data check of the same name
			e.assume(Implies(st.guard, goal))
			continue
		}
		if cross && !modeAgnostic(c.Expr) {
			e.note("call to %s: precondition [%s] is stated in %s mode with arithmetic: undecidable from a %s-mode caller", key, clauseName(c, i), ct.Mode, e.ar.mode)
			e.oblige("call-pre", fmt.Sprintf("call %s#%d/requires[%s]", short, ord, clauseName(c, i)), st.guard, TFalse, pos)
			continue
		}
		e.oblige("call-pre", fmt.Sprintf("call %s#%d/requires[%s]", short, ord, clauseName(c, i)), st.guard, goal, pos)
		e.assume(Implies(st.guard, goal))
	}
	// assert_at hooks of the caller's contract
	// frame
	if ct.ModAny {
		e.unknownCall(st, "call "+key+" (modifies unspecified)")
		delete(e.unmod, "call "+key+" (modifies unspecified)")
	}
	for _, d := range ct.Modifies {
		n := *env
		n.cl = &d
		for _, loc := range n.designator(d.Expr) {
			e.havocLoc(st, loc)
		}
	}
	// allocation
	na := e.fresh(e.rs(), "alloc")
	e.assume(Implies(st.guard, e.ridLe(st.alloc, na)))
	st.alloc = na
	var res Val
	if rt != nil {
		if tt, ok := rt.(*types.Tuple); ok {
			if tt.Len() == 1 {
				res = e.freshWF(st, tt.At(0).Type(), "r."+short)
			} else if tt.Len() > 1 {
				res = e.freshWF(st, rt, "r."+short)
			}
		} else {
			res = e.freshWF(st, rt, "r."+short)
		}
	}
	post := e.calleeEnv(st, pre, ct, callee, args)
	for k, v := range env.bound {
		if _, ok := post.bound[k]; !ok {
			post.bound[k] = v
		}
	}
	bindResults(post, res, callee, sig)
	if ct.Pure && callee != nil {
		// a pure function (see pureScan): its result is the uninterpreted function of its arguments that contract
		// expressions use for it
		if rsc, ok := res.(Scalar); ok {
			var argTerms []Term
			var sorts []Sort
			for _, v := range args {
				for _, t := range dynTerms(v) {
					argTerms = append(argTerms, t)
					sorts = append(sorts, t.Sort)
				}
			}
			f := e.declareFun("pure:"+key, sorts, rsc.T.Sort)
			e.assume(Implies(st.guard, Eq(rsc.T, app(rsc.T.Sort, f, argTerms...))))
		}
	}
	for _, c := range ct.Ensures {
		if strings.HasPrefix(c.Label, "local-") {
			continue // proved for the callee, deliberately not exported to callers (avoids matching loops)
		}
		if cross && !modeAgnostic(c.Expr) {
			continue // verified with the other integer semantics: not usable here
		}
		e.assume(Implies(st.guard, e.evalClause(post, c)))
	}
	return res
}

// Loc is a set of heap locations: slot map key, region, index range [Lo,Hi) (absolute), optionally one array element.
type Loc struct {
	Key    string
	Slot   Sort
	Rid    Term
	Lo, Hi Term
	All    bool // the whole map (every region of that type)
}

// designator evaluates a modifies designator into locations:
//   p.f, p.f.g, *p, s[i], s[i].f, s[lo:hi], s[lo:hi].f, s[:]
func (env *Env) designator(x ast.Expr) []Loc {
	e := env.e
	a := e.ar
	// all(T): every location of every region holding values of type T
	if ce, ok := x.(*ast.CallExpr); ok {
		if id, ok := ce.Fun.(*ast.Ident); ok && id.Name == "all" && len(ce.Args) == 1 {
			t, err := resolveType(ce.Args[0], env.pkg)
			if err != nil {
				env.fail("modifies all(T): %v", err)
			}
			var locs []Loc
			for _, s := range e.slots(t) {
				locs = append(locs, Loc{Key: heapKey(t, s.Path), Slot: s.Sort, All: true})
			}
			return locs
		}
	}
	// a range of slice elements, optionally with a field path: s[lo:hi].f.g
	var fields []string
	cur := x
	for {
		if p, ok := cur.(*ast.ParenExpr); ok {
			cur = p.X
			continue
		}
		sel, ok := cur.(*ast.SelectorExpr)
		if !ok {
			break
		}
		if _, isSl := sel.X.(*ast.SliceExpr); isSl {
			fields = append([]string{sel.Sel.Name}, fields...)
			cur = sel.X
			break
		}
		// keep peeling only while the remaining prefix still contains a slice expression
		hasSlice := false
		ast.Inspect(sel.X, func(n ast.Node) bool {
			if _, ok := n.(*ast.SliceExpr); ok {
				hasSlice = true
			}
			return true
		})
		if !hasSlice {
			break
		}
		fields = append([]string{sel.Sel.Name}, fields...)
		cur = sel.X
	}
	var root types.Type
	var prefix string
	var rid, lo, hi Term
	var leaf types.Type
	if b, ok := cur.(*ast.SliceExpr); ok {
		s, ok := env.eval(b.X).(SliceV)
		if !ok {
			env.fail("modifies: slice of non-slice")
		}
		el := s.Ty.Underlying().(*types.Slice).Elem()
		root, leaf, rid = el, el, s.Rid
		l, h := a.idxLit(0), s.Len
		if b.Low != nil {
			l = e.toIdx(env.typed(env.eval(b.Low), types.Typ[types.Int]))
		}
		if b.High != nil {
			h = e.toIdx(env.typed(env.eval(b.High), types.Typ[types.Int]))
		}
		lo, hi = a.idxAdd(s.Off, l), a.idxAdd(s.Off, h)
	} else {
		p, ok := env.lvalue(cur)
		if !ok {
			return nil // a local: not part of the heap frame
		}
		root, rid, lo, hi = p.Root, p.Rid, p.Idx, a.idxAdd(p.Idx, a.idxLit(1))
		prefix, leaf = pathPrefix(p.Root, p.Path)
		if p.ArrBase || len(p.ArrIdx) > 0 {
			env.fail("modifies: array element designators are not supported; name the whole array field")
		}
	}
	// walk the fields
	for _, f := range fields {
		st, ok := leaf.Underlying().(*types.Struct)
		if !ok {
			env.fail("modifies: .%s on non-struct %s", f, leaf)
		}
		found := false
		for i := 0; i < st.NumFields(); i++ {
			if st.Field(i).Name() == f {
				prefix = joinPath(prefix, f)
				leaf = st.Field(i).Type()
				found = true
				break
			}
		}
		if !found {
			env.fail("modifies: no field %s in %s", f, leaf)
		}
	}
	var locs []Loc
	for _, s := range e.slots(leaf) {
		locs = append(locs, Loc{Key: heapKey(root, joinPath(prefix, s.Path)), Slot: s.Sort, Rid: rid, Lo: lo, Hi: hi})
	}
	return locs
}

func (e *Engine) havocLoc(st *State, l Loc) {
	if l.All {
		st.heap[l.Key] = e.fresh(e.heapSort(l.Slot), "havocAll:"+l.Key)
		keySorts[l.Key+"|"+e.ar.mode.String()] = e.heapSort(l.Slot)
		return
	}
	e.havocKeyRange(st, l.Key, l.Slot, l.Rid, l.Lo, l.Hi)
}

// frameFormula: every location of map `key` outside the function's modifies set and allocated at entry is unchanged.
// quantified=true yields a forall (to assume), false yields the same with fresh constants (to prove).
func (e *Engine) frameFormula(st *State, key string, slot Sort, quantified bool) Term {
	a := e.ar
	cur, ok := st.heap[key]
	if !ok {
		return TTrue
	}
	old := e.baseGet("M0:", key, cur.Sort)
	if cur.S == old.S {
		return TTrue
	}
	var r, i Term
	if quantified {
		r, i = Term{"r!q", e.rs()}, Term{"i!q", arrIdxSort(cur.Sort)}
	} else {
		r, i = e.fresh(e.rs(), "fr.r"), e.fresh(arrIdxSort(cur.Sort), "fr.i")
	}
	var inSet []Term
	for _, l := range e.modLocs {
		if l.Key == key {
			if l.All {
				return TTrue
			}
			inSet = append(inSet, And(Eq(r, l.Rid), a.idxLe(l.Lo, i), a.idxLt(i, l.Hi)))
		}
	}
	body := Implies(And(e.ridLt(r, e.entry.alloc), e.ridLe(e.ridLit(0), r), Not(Or(inSet...))),
		Eq(Select(Select(cur, r), i), Select(Select(old, r), i)))
	if quantified {
		return Forall([]Term{r, i}, body, []Term{Select(Select(cur, r), i)})
	}
	return body
}

func arrIdxSort(full Sort) Sort {
	_, inner := arrSorts(full)
	i, _ := arrSorts(inner)
	return i
}

// modeAgnostic: the expression has the same meaning with mathematical and with machine integers.
func modeAgnostic(x ast.Expr) bool {
	ok := true
	ast.Inspect(x, func(n ast.Node) bool {
		switch b := n.(type) {
		case *ast.BinaryExpr:
			switch b.Op {
			case token.ADD, token.SUB, token.MUL, token.QUO, token.REM, token.SHL, token.SHR, token.AND, token.OR, token.XOR, token.AND_NOT:
				ok = false
			}
		case *ast.UnaryExpr:
			if b.Op == token.SUB || b.Op == token.XOR {
				if _, lit := b.X.(*ast.BasicLit); !lit {
					ok = false
				}
			}
		}
		return ok
	})
	return ok
}

// lvalue: pointer to the heap location denoted by x (false for locals).
func (env *Env) lvalue(x ast.Expr) (PtrV, bool) {
	e := env.e
	switch n := x.(type) {
	case *ast.ParenExpr:
		return env.lvalue(n.X)
	case *ast.StarExpr:
		p, ok := env.eval(n.X).(PtrV)
		if !ok {
			env.fail("modifies: *x needs a pointer")
		}
		return p, p.Local == nil
	case *ast.IndexExpr:
		base := env.eval(n.X)
		s, ok := base.(SliceV)
		if !ok {
			env.fail("modifies: index of non-slice")
		}
		i := e.toIdx(env.typed(env.eval(n.Index), types.Typ[types.Int]))
		el := s.Ty.Underlying().(*types.Slice).Elem()
		return PtrV{Ty: types.NewPointer(el), Rid: s.Rid, Idx: e.elemIdx(s.Off, i), Root: el, NonNil: true}, true
	case *ast.SelectorExpr:
		// X evaluates to a pointer: field of the pointee; else X must itself be a heap location
		var base PtrV
		okBase := false
		func() {
			defer func() {
				if r := recover(); r != nil {
					if _, isEval := r.(evalError); !isEval {
						panic(r)
					}
				}
			}()
			if v, ok := env.eval(n.X).(PtrV); ok {
				base, okBase = v, true
			}
		}()
		if !okBase {
			p, ok := env.lvalue(n.X)
			if !ok {
				return PtrV{}, false
			}
			base = p
		}
		if base.Local != nil {
			return PtrV{}, false
		}
		_, lt := pathPrefix(base.Root, base.Path)
		st, ok := lt.Underlying().(*types.Struct)
		if !ok {
			env.fail("modifies: .%s on non-struct %s", n.Sel.Name, lt)
		}
		for i := 0; i < st.NumFields(); i++ {
			if st.Field(i).Name() == n.Sel.Name {
				np := base
				np.Path = append(append([]int{}, base.Path...), i)
				np.Ty = types.NewPointer(st.Field(i).Type())
				return np, true
			}
		}
		env.fail("modifies: no field %s in %s", n.Sel.Name, lt)
	case *ast.Ident:
		return PtrV{}, false
	}
	env.fail("modifies: %T is not a location", x)
	return PtrV{}, false
}
