package main

import (
	"fmt"
	"go/ast"
	"go/constant"
	"go/token"
	"go/types"
	"strings"
	"time"

	"golang.org/x/tools/go/ssa"
)

// Ground data invariants: package-level tables are read from the typed AST of the current tree (go/constant),
// the invariant is evaluated by enumeration, and the table is checked to be written nowhere but in its initialiser.

type cval interface{}

type cstruct map[string]cval
type carray []cval
type cmap struct {
	keys []cval
	m    map[string]cval
}

func ckey(v cval) string { return fmt.Sprintf("%v", v) }

func (w *World) constValue(info *types.Info, x ast.Expr, t types.Type) (cval, error) {
	if tv, ok := info.Types[x]; ok && tv.Value != nil {
		switch tv.Value.Kind() {
		case constant.Int:
			n, ok := constant.Int64Val(tv.Value)
			if !ok {
				return nil, fmt.Errorf("constant too large")
			}
			return n, nil
		case constant.Bool:
			return constant.BoolVal(tv.Value), nil
		case constant.String:
			return constant.StringVal(tv.Value), nil
		case constant.Float:
			f, _ := constant.Float64Val(tv.Value)
			return f, nil
		}
	}
	switch e := x.(type) {
	case *ast.ParenExpr:
		return w.constValue(info, e.X, t)
	case *ast.UnaryExpr:
		if e.Op == token.AND {
			return w.constValue(info, e.X, t)
		}
	case *ast.CompositeLit:
		ty := t
		if tv, ok := info.Types[x]; ok && tv.Type != nil {
			ty = tv.Type
		}
		if ty == nil {
			return nil, fmt.Errorf("untyped composite literal")
		}
		if p, ok := ty.Underlying().(*types.Pointer); ok {
			ty = p.Elem()
		}
		switch u := ty.Underlying().(type) {
		case *types.Struct:
			s := cstruct{}
			for i := 0; i < u.NumFields(); i++ {
				s[u.Field(i).Name()] = zeroConst(u.Field(i).Type())
			}
			for i, el := range e.Elts {
				if kv, ok := el.(*ast.KeyValueExpr); ok {
					name := kv.Key.(*ast.Ident).Name
					var ft types.Type
					for j := 0; j < u.NumFields(); j++ {
						if u.Field(j).Name() == name {
							ft = u.Field(j).Type()
						}
					}
					v, err := w.constValue(info, kv.Value, ft)
					if err != nil {
						return nil, err
					}
					s[name] = v
				} else {
					v, err := w.constValue(info, el, u.Field(i).Type())
					if err != nil {
						return nil, err
					}
					s[u.Field(i).Name()] = v
				}
			}
			return s, nil
		case *types.Array, *types.Slice:
			var et types.Type
			if a, ok := u.(*types.Array); ok {
				et = a.Elem()
			} else {
				et = u.(*types.Slice).Elem()
			}
			var arr carray
			idx := int64(0)
			for _, el := range e.Elts {
				val := el
				if kv, ok := el.(*ast.KeyValueExpr); ok {
					k, err := w.constValue(info, kv.Key, nil)
					if err != nil {
						return nil, err
					}
					idx = k.(int64)
					val = kv.Value
				}
				v, err := w.constValue(info, val, et)
				if err != nil {
					return nil, err
				}
				for int64(len(arr)) <= idx {
					arr = append(arr, zeroConst(et))
				}
				arr[idx] = v
				idx++
			}
			if a, ok := u.(*types.Array); ok {
				for int64(len(arr)) < a.Len() {
					arr = append(arr, zeroConst(et))
				}
			}
			return arr, nil
		case *types.Map:
			m := &cmap{m: map[string]cval{}}
			for _, el := range e.Elts {
				kv := el.(*ast.KeyValueExpr)
				k, err := w.constValue(info, kv.Key, u.Key())
				if err != nil {
					return nil, err
				}
				v, err := w.constValue(info, kv.Value, u.Elem())
				if err != nil {
					return nil, err
				}
				if _, dup := m.m[ckey(k)]; !dup {
					m.keys = append(m.keys, k)
				}
				m.m[ckey(k)] = v
			}
			return m, nil
		}
	case *ast.Ident:
		// reference to another package-level variable / constant
		if obj := info.Uses[e]; obj != nil {
			if v, ok := obj.(*types.Var); ok {
				return w.globalConst(v)
			}
		}
	}
	return nil, fmt.Errorf("cannot evaluate %T as a constant table", x)
}

func zeroConst(t types.Type) cval {
	switch u := t.Underlying().(type) {
	case *types.Basic:
		switch {
		case u.Info()&types.IsBoolean != 0:
			return false
		case u.Info()&types.IsString != 0:
			return ""
		case u.Info()&types.IsFloat != 0:
			return 0.0
		}
		return int64(0)
	case *types.Struct:
		s := cstruct{}
		for i := 0; i < u.NumFields(); i++ {
			s[u.Field(i).Name()] = zeroConst(u.Field(i).Type())
		}
		return s
	case *types.Array:
		var arr carray
		for i := int64(0); i < u.Len(); i++ {
			arr = append(arr, zeroConst(u.Elem()))
		}
		return arr
	}
	return nil
}

// globalConst evaluates the initialiser of a package-level variable.
func (w *World) globalConst(v *types.Var) (cval, error) {
	pkg := w.pkgs[v.Pkg().Path()]
	if pkg == nil {
		return nil, fmt.Errorf("package %s not loaded with syntax", v.Pkg().Path())
	}
	for _, f := range pkg.Syntax {
		for _, d := range f.Decls {
			gd, ok := d.(*ast.GenDecl)
			if !ok || gd.Tok != token.VAR {
				continue
			}
			for _, sp := range gd.Specs {
				vs := sp.(*ast.ValueSpec)
				for i, n := range vs.Names {
					if pkg.TypesInfo.Defs[n] == v {
						if i >= len(vs.Values) {
							return zeroConst(v.Type()), nil
						}
						return w.constValue(pkg.TypesInfo, vs.Values[i], v.Type())
					}
				}
			}
		}
	}
	return nil, fmt.Errorf("no declaration for %s", v.Name())
}

// ---------------------------------------------------------------- concrete evaluation of invariant expressions

type cenv struct {
	w     *World
	pkg   *types.Package
	bound map[string]cval
	steps int64
	witness string
}

func (c *cenv) fail(f string, a ...interface{}) { panic(evalError{fmt.Sprintf(f, a...)}) }

func (c *cenv) eval(x ast.Expr) cval {
	c.steps++
	switch n := x.(type) {
	case *ast.ParenExpr:
		return c.eval(n.X)
	case *ast.BasicLit:
		v := constant.MakeFromLiteral(n.Value, n.Kind, 0)
		switch v.Kind() {
		case constant.Int:
			i, _ := constant.Int64Val(v)
			return i
		case constant.String:
			return constant.StringVal(v)
		}
	case *ast.Ident:
		if v, ok := c.bound[n.Name]; ok {
			return v
		}
		switch n.Name {
		case "true":
			return true
		case "false":
			return false
		}
		if o := c.pkg.Scope().Lookup(n.Name); o != nil {
			switch ob := o.(type) {
			case *types.Const:
				if i, ok := constant.Int64Val(constant.ToInt(ob.Val())); ok {
					return i
				}
				if ob.Val().Kind() == constant.String {
					return constant.StringVal(ob.Val())
				}
			case *types.Var:
				v, err := c.w.globalConst(ob)
				if err != nil {
					c.fail("%v", err)
				}
				c.bound[n.Name] = v
				return v
			}
		}
		c.fail("unknown identifier %s", n.Name)
	case *ast.SelectorExpr:
		if id, ok := n.X.(*ast.Ident); ok {
			if _, bound := c.bound[id.Name]; !bound && c.pkg.Scope().Lookup(id.Name) == nil {
				if ip := findImport(c.pkg, id.Name); ip != nil {
					key := id.Name + "." + n.Sel.Name
					if v, ok := c.bound[key]; ok {
						return v
					}
					switch ob := ip.Scope().Lookup(n.Sel.Name).(type) {
					case *types.Var:
						v, err := c.w.globalConst(ob)
						if err != nil {
							c.fail("%v", err)
						}
						c.bound[key] = v
						return v
					case *types.Const:
						if i, ok := constant.Int64Val(constant.ToInt(ob.Val())); ok {
							return i
						}
					}
					c.fail("unknown %s.%s", id.Name, n.Sel.Name)
				}
			}
		}
		v := c.eval(n.X)
		if s, ok := v.(cstruct); ok {
			if f, ok := s[n.Sel.Name]; ok {
				return f
			}
		}
		c.fail("selector .%s on %T", n.Sel.Name, v)
	case *ast.IndexExpr:
		b := c.eval(n.X)
		i := c.eval(n.Index)
		switch t := b.(type) {
		case carray:
			k := i.(int64)
			if k < 0 || k >= int64(len(t)) {
				c.fail("index %d out of range", k)
			}
			return t[k]
		case *cmap:
			if v, ok := t.m[ckey(i)]; ok {
				return v
			}
			return int64(0)
		case string:
			return int64(t[i.(int64)])
		}
		c.fail("index of %T", b)
	case *ast.UnaryExpr:
		v := c.eval(n.X)
		switch n.Op {
		case token.NOT:
			return !v.(bool)
		case token.SUB:
			return -v.(int64)
		}
	case *ast.BinaryExpr:
		if n.Op == token.LAND {
			return c.eval(n.X).(bool) && c.eval(n.Y).(bool)
		}
		if n.Op == token.LOR {
			return c.eval(n.X).(bool) || c.eval(n.Y).(bool)
		}
		a, b := c.eval(n.X), c.eval(n.Y)
		if as, ok := a.(string); ok {
			bs := b.(string)
			switch n.Op {
			case token.EQL:
				return as == bs
			case token.NEQ:
				return as != bs
			case token.LSS:
				return as < bs
			case token.LEQ:
				return as <= bs
			case token.GTR:
				return as > bs
			case token.GEQ:
				return as >= bs
			}
		}
		if ab, ok := a.(bool); ok {
			bb := b.(bool)
			switch n.Op {
			case token.EQL:
				return ab == bb
			case token.NEQ:
				return ab != bb
			}
		}
		ai, aok := a.(int64)
		bi, bok := b.(int64)
		if !aok || !bok {
			switch n.Op {
			case token.EQL:
				return ckey(a) == ckey(b)
			case token.NEQ:
				return ckey(a) != ckey(b)
			}
			c.fail("binary %s on %T, %T", n.Op, a, b)
		}
		switch n.Op {
		case token.ADD:
			return ai + bi
		case token.SUB:
			return ai - bi
		case token.MUL:
			return ai * bi
		case token.QUO:
			return ai / bi
		case token.REM:
			return ai % bi
		case token.AND:
			return ai & bi
		case token.OR:
			return ai | bi
		case token.SHL:
			return ai << uint(bi)
		case token.SHR:
			return ai >> uint(bi)
		case token.EQL:
			return ai == bi
		case token.NEQ:
			return ai != bi
		case token.LSS:
			return ai < bi
		case token.LEQ:
			return ai <= bi
		case token.GTR:
			return ai > bi
		case token.GEQ:
			return ai >= bi
		}
	case *ast.CallExpr:
		id, ok := n.Fun.(*ast.Ident)
		if !ok {
			c.fail("unsupported call in data invariant")
		}
		switch id.Name {
		case "len":
			switch t := c.eval(n.Args[0]).(type) {
			case carray:
				return int64(len(t))
			case *cmap:
				return int64(len(t.keys))
			case string:
				return int64(len(t))
			}
		case "forall", "exists":
			vn := n.Args[0].(*ast.Ident).Name
			lo, hi := c.eval(n.Args[1]).(int64), c.eval(n.Args[2]).(int64)
			saved, had := c.bound[vn]
			res := id.Name == "forall"
			for k := lo; k < hi; k++ {
				c.bound[vn] = k
				b := c.eval(n.Args[3]).(bool)
				if id.Name == "forall" && !b {
					res = false
					c.witness = fmt.Sprintf("%s=%d", vn, k)
					break
				}
				if id.Name == "exists" && b {
					res = true
					break
				}
			}
			if had {
				c.bound[vn] = saved
			} else {
				delete(c.bound, vn)
			}
			return res
		case "forallkeys":
			// forallkeys(k, m, body): every key k of map m
			vn := n.Args[0].(*ast.Ident).Name
			m := c.eval(n.Args[1]).(*cmap)
			for _, k := range m.keys {
				c.bound[vn] = k
				if !c.eval(n.Args[2]).(bool) {
					c.witness = fmt.Sprintf("%s=%v", vn, k)
					delete(c.bound, vn)
					return false
				}
			}
			delete(c.bound, vn)
			return true
		case "has":
			m := c.eval(n.Args[0]).(*cmap)
			_, ok := m.m[ckey(c.eval(n.Args[1]))]
			return ok
		case "implies":
			return !c.eval(n.Args[0]).(bool) || c.eval(n.Args[1]).(bool)
		case "ite":
			if c.eval(n.Args[0]).(bool) {
				return c.eval(n.Args[1])
			}
			return c.eval(n.Args[2])
		case "pair":
			return carray{c.eval(n.Args[0]), c.eval(n.Args[1])}
		case "disjointTables":
			// exact disjointness of two unicode.RangeTable literals (strides honoured, by enumeration)
			a := tableMembers(c, c.eval(n.Args[0]))
			for r := range tableMembers(c, c.eval(n.Args[1])) {
				if a[r] {
					c.witness = fmt.Sprintf("common rune U+%04X", r)
					return false
				}
			}
			return true
		case "wellFormedTable":
			// the precondition of unicode.Is: ranges sorted, non-overlapping, Lo <= Hi, Stride >= 1, R16 below R32
			return tableWellFormed(c, c.eval(n.Args[0]))
		}
		c.fail("unknown function %s in data invariant", id.Name)
	}
	c.fail("unsupported expression %T in data invariant", x)
	return nil
}

// verifyData checks the data invariants tagged with prop.
func (w *World) verifyData(prop string) []*FuncResult {
	var out []*FuncResult
	for _, d := range w.datas {
		if !hasProp(d.Props, prop) {
			continue
		}
		r := &FuncResult{Key: d.PkgRel + ".data:" + d.Name, Mode: "ground", Props: d.Props}
		start := time.Now()
		func() {
			defer func() {
				if x := recover(); x != nil {
					r.Err = fmt.Sprintf("data invariant %s: %v", d.Name, x)
				}
			}()
			var pkg *types.Package
			for path, p := range w.pkgs {
				if strings.TrimPrefix(path, modPrefix) == d.PkgRel {
					pkg = p.Types
				}
			}
			if pkg == nil {
				panic("no package " + d.PkgRel)
			}
			env := &cenv{w: w, pkg: pkg, bound: map[string]cval{}}
			ok := env.eval(d.Expr.Expr).(bool)
			o := &Oblig{Name: r.Key + "/holds", Kind: "data", Fn: r.Key, Pos: fmt.Sprintf("%s:%d", strings.TrimPrefix(d.Expr.File, "/repo/"), d.Expr.Line)}
			st := "unsat"
			outp := fmt.Sprintf("ground evaluation over the table literal(s) of the current tree: %d evaluation steps", env.steps)
			if !ok {
				st = "sat"
				outp = "invariant is false on the current table literal; first failing binding: " + env.witness
			}
			o.Res = &SolveResult{Status: st, Solver: "ground-eval", Ms: time.Since(start).Milliseconds(), Output: outp}
			r.Obls = append(r.Obls, o)
			// the tables mentioned must not be written outside init
			ast.Inspect(d.Expr.Expr, func(n ast.Node) bool {
				id, ok := n.(*ast.Ident)
				if !ok {
					return true
				}
				v, ok := pkg.Scope().Lookup(id.Name).(*types.Var)
				if !ok {
					return true
				}
				wo := &Oblig{Name: r.Key + "/readonly[" + id.Name + "]", Kind: "data", Fn: r.Key}
				writers := w.writersOf(v)
				if len(writers) == 0 {
					wo.Res = &SolveResult{Status: "unsat", Solver: "ssa-scan", Output: "no Store/MapUpdate to the variable outside its package initialiser"}
				} else {
					wo.Res = &SolveResult{Status: "sat", Solver: "ssa-scan", Output: "written in: " + strings.Join(writers, ", ")}
				}
				dup := false
				for _, e := range r.Obls {
					if e.Name == wo.Name {
						dup = true
					}
				}
				if !dup {
					r.Obls = append(r.Obls, wo)
				}
				return true
			})
		}()
		out = append(out, r)
	}
	return out
}

// writersOf lists functions (other than init) that store through the global.
func (w *World) writersOf(v *types.Var) []string {
	sp := w.prog.Package(v.Pkg())
	if sp == nil {
		return []string{"<package not built>"}
	}
	g, ok := sp.Members[v.Name()].(*ssa.Global)
	if !ok {
		return nil
	}
	var out []string
	var rootsAt func(val ssa.Value, depth int) bool
	rootsAt = func(val ssa.Value, depth int) bool {
		if depth > 6 {
			return false
		}
		switch x := val.(type) {
		case *ssa.Global:
			return x == g
		case *ssa.FieldAddr:
			return rootsAt(x.X, depth+1)
		case *ssa.IndexAddr:
			return rootsAt(x.X, depth+1)
		case *ssa.UnOp:
			// load of the global (slice/map header) then indexing
			return rootsAt(x.X, depth+1)
		case *ssa.Slice:
			return rootsAt(x.X, depth+1)
		}
		return false
	}
	for fn := range allFuncs(w) {
		if fn.Pkg == nil || fn.Name() == "init" || strings.HasPrefix(fn.Name(), "init#") {
			continue
		}
		for _, b := range fn.Blocks {
			for _, in := range b.Instrs {
				switch x := in.(type) {
				case *ssa.Store:
					if rootsAt(x.Addr, 0) {
						out = append(out, funcKey(fn))
					}
				case *ssa.MapUpdate:
					if rootsAt(x.Map, 0) {
						out = append(out, funcKey(fn))
					}
				}
			}
		}
	}
	return out
}

func allFuncs(w *World) map[*ssa.Function]bool {
	m := map[*ssa.Function]bool{}
	for _, fn := range w.funcs {
		m[fn] = true
		for _, an := range fn.AnonFuncs {
			m[an] = true
		}
	}
	return m
}

// globalByRid maps the region constant of a global variable back to the global.
func (w *World) globalByRid(rid Term) *ssa.Global {
	n, ok := parseModelIntPublic(rid.S)
	if !ok {
		return nil
	}
	for g, id := range w.globals {
		if int64(id) == n {
			return g
		}
	}
	return nil
}

func parseModelIntPublic(s string) (int64, bool) {
	if n, ok := parseModelInt(s); ok && n.IsInt64() {
		return n.Int64(), true
	}
	return 0, false
}

// constPtrID: stable id of a global pointer variable that is a constant address (see Engine.constPointerGlobal).
func (w *World) constPtrID(g *ssa.Global) (int, bool) {
	if w.constPtr == nil {
		w.constPtr = map[*ssa.Global]int{}
	}
	if id, ok := w.constPtr[g]; ok {
		return id, id > 0
	}
	w.constPtr[g] = 0
	v, ok := g.Object().(*types.Var)
	if !ok || g.Pkg == nil {
		return 0, false
	}
	pkg := w.pkgs[g.Pkg.Pkg.Path()]
	if pkg == nil {
		return 0, false
	}
	isAddrLit := false
	for _, f := range pkg.Syntax {
		for _, d := range f.Decls {
			gd, ok := d.(*ast.GenDecl)
			if !ok || gd.Tok != token.VAR {
				continue
			}
			for _, sp := range gd.Specs {
				vs := sp.(*ast.ValueSpec)
				for i, n := range vs.Names {
					if pkg.TypesInfo.Defs[n] == v && i < len(vs.Values) {
						if ue, ok := vs.Values[i].(*ast.UnaryExpr); ok && ue.Op == token.AND {
							if _, ok := ue.X.(*ast.CompositeLit); ok {
								isAddrLit = true
							}
						}
					}
				}
			}
		}
	}
	if !isAddrLit || len(w.writersOf(v)) > 0 {
		return 0, false
	}
	w.nconstPtr++
	w.constPtr[g] = w.nconstPtr
	return w.nconstPtr, true
}

func tableRanges(c *cenv, v cval) [][3]int64 {
	t, ok := v.(cstruct)
	if !ok {
		c.fail("not a RangeTable literal")
	}
	var out [][3]int64
	for _, f := range []string{"R16", "R32"} {
		arr, _ := t[f].(carray)
		for _, e := range arr {
			r := e.(cstruct)
			out = append(out, [3]int64{r["Lo"].(int64), r["Hi"].(int64), r["Stride"].(int64)})
		}
	}
	return out
}

func tableMembers(c *cenv, v cval) map[int64]bool {
	m := map[int64]bool{}
	for _, r := range tableRanges(c, v) {
		st := r[2]
		if st < 1 {
			st = 1
		}
		for x := r[0]; x <= r[1]; x += st {
			m[x] = true
			c.steps++
		}
	}
	return m
}

func tableWellFormed(c *cenv, v cval) bool {
	t := v.(cstruct)
	prevHi := int64(-1)
	for _, f := range []string{"R16", "R32"} {
		arr, _ := t[f].(carray)
		for _, e := range arr {
			r := e.(cstruct)
			lo, hi, st := r["Lo"].(int64), r["Hi"].(int64), r["Stride"].(int64)
			if lo > hi || st < 1 || lo <= prevHi || (f == "R16" && hi > 0xffff) || (f == "R32" && lo < 0x10000) || (hi-lo)%st != 0 {
				c.witness = fmt.Sprintf("range %#x-%#x stride %d", lo, hi, st)
				return false
			}
			prevHi = hi
		}
	}
	return true
}

// pureScan decides whether fn is a mathematical function of its (scalar) arguments: no calls, no stores outside
// its own locals, and every load reads a local or a package-level table that no function of the program writes.
// It justifies the `pure` keyword of a contract (the result is then identified with an uninterpreted function of the
// arguments at every call site and inside contract expressions).
func (w *World) pureScan(fn *ssa.Function) (bool, string) {
	for _, p := range fn.Params {
		if _, ok := p.Type().Underlying().(*types.Basic); !ok {
			return false, "parameter " + p.Name() + " is not of a basic type"
		}
	}
	var rootOK func(val ssa.Value, depth int) (bool, string)
	rootOK = func(val ssa.Value, depth int) (bool, string) {
		if depth > 8 {
			return false, "address too deep"
		}
		switch x := val.(type) {
		case *ssa.Alloc:
			return true, ""
		case *ssa.Global:
			if v, ok := x.Object().(*types.Var); ok {
				if ws := w.writersOf(v); len(ws) > 0 {
					return false, "reads " + x.Name() + ", written by " + strings.Join(ws, ", ")
				}
				return true, ""
			}
			return false, "global without object"
		case *ssa.FieldAddr:
			return rootOK(x.X, depth+1)
		case *ssa.IndexAddr:
			return rootOK(x.X, depth+1)
		case *ssa.Slice:
			return rootOK(x.X, depth+1)
		case *ssa.UnOp:
			if x.Op == token.MUL {
				return rootOK(x.X, depth+1)
			}
		case *ssa.Phi:
			for _, ed := range x.Edges {
				if ok, why := rootOK(ed, depth+1); !ok {
					return false, why
				}
			}
			return true, ""
		}
		return false, fmt.Sprintf("reads through %T", val)
	}
	for _, b := range fn.Blocks {
		for _, in := range b.Instrs {
			switch x := in.(type) {
			case *ssa.Call:
				if bi, ok := x.Call.Value.(*ssa.Builtin); ok && (bi.Name() == "len" || bi.Name() == "cap") {
					continue
				}
				return false, "contains a call"
			case *ssa.Go, *ssa.Defer, *ssa.Send, *ssa.MapUpdate, *ssa.Select, *ssa.Panic:
				return false, fmt.Sprintf("contains %T", in)
			case *ssa.Store:
				if _, ok := x.Addr.(*ssa.Alloc); !ok {
					if ok2, _ := rootOK(x.Addr, 0); !ok2 {
						return false, "stores outside its locals"
					}
					if _, isG := x.Addr.(*ssa.Global); isG {
						return false, "stores to a global"
					}
				}
			case *ssa.UnOp:
				if x.Op == token.MUL {
					if ok, why := rootOK(x.X, 0); !ok {
						return false, why
					}
				}
			}
		}
	}
	return true, ""
}
