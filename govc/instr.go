package main

import (
	"fmt"
	"time"
	"go/constant"
	"go/token"
	"go/types"
	"math/big"

	"golang.org/x/tools/go/ssa"
)

func cpathStr(p []cstep) string {
	s := ""
	for _, c := range p {
		if c.idx != nil {
			s += "[" + c.idx.S + "]"
		} else {
			s += fmt.Sprintf(".%d", c.field)
		}
	}
	return s
}

func ratOf(f float64) *big.Rat {
	r := new(big.Rat)
	r.SetFloat64(f)
	return r
}

func constToBig(v constant.Value) *big.Int {
	v = constant.ToInt(v)
	switch x := constant.Val(v).(type) {
	case int64:
		return big.NewInt(x)
	case *big.Int:
		return new(big.Int).Set(x)
	}
	return big.NewInt(0)
}

func constToRat(v constant.Value) *big.Rat {
	switch x := constant.Val(v).(type) {
	case int64:
		return new(big.Rat).SetInt64(x)
	case *big.Int:
		return new(big.Rat).SetInt(x)
	case *big.Rat:
		return x
	case *big.Float:
		r, _ := x.Rat(nil)
		return r
	}
	f, _ := constant.Float64Val(v)
	return ratOf(f)
}

// execBlock runs the instructions of b on st; returns the terminator (nil if the path ends).
func (e *Engine) execBlock(fr *Frame, b *ssa.BasicBlock, st *State) ssa.Instruction {
	e.steps++
	if e.steps%64 == 0 && !e.deadline.IsZero() && time.Now().After(e.deadline) {
		unsupp("VC generation exceeded its time budget; function left undecided")
	}
	for _, in := range b.Instrs {
		switch x := in.(type) {
		case *ssa.Jump, *ssa.If, *ssa.Return:
			return in
		case *ssa.Panic:
			if !(fr.top && e.contract != nil && e.contract.MayPanic) {
				e.oblige("panic", fmt.Sprintf("panic#%d", e.ordinal("panic")), st.guard, TFalse, x.Pos())
			}
			return in
		case *ssa.Phi:
			continue // handled in merge
		default:
			if !e.step(fr, st, in) {
				return nil
			}
		}
	}
	return nil
}

func retype(v Val, t types.Type) Val {
	switch x := v.(type) {
	case Scalar:
		x.Ty = t
		return x
	case StructV:
		x.Ty = t
		return x
	case SliceV:
		x.Ty = t
		return x
	case PtrV:
		x.Ty = t
		return x
	case ArrayV:
		x.Ty = t
		return x
	}
	return v
}

// step executes one non-terminator instruction. Returns false if execution cannot continue.
func (e *Engine) step(fr *Frame, st *State, in ssa.Instruction) bool {
	switch x := in.(type) {
	case *ssa.DebugRef:
	case *ssa.Alloc:
		et := x.Type().(*types.Pointer).Elem()
		if !x.Heap && !e.forceHeap(fr, x) {
			st.cells[x] = &Cell{Name: x.Comment, V: e.zeroVal(et)}
			fr.regs[x] = PtrV{Ty: x.Type(), Local: x, NonNil: true}
		} else {
			fr.regs[x] = e.allocHeap(st, et, x.Type())
		}
	case *ssa.Store:
		e.store(fr, st, fr.get(e, x.Addr), fr.get(e, x.Val), x.Pos())
	case *ssa.UnOp:
		fr.regs[x] = e.unop(fr, st, x)
	case *ssa.BinOp:
		fr.regs[x] = e.binop(fr, st, x)
	case *ssa.FieldAddr:
		p := fr.get(e, x.X).(PtrV)
		e.nilCheck(st, p, x.Pos())
		np := p
		np.Ty = x.Type()
		if p.Local != nil {
			np.CPath = append(append([]cstep{}, p.CPath...), cstep{field: x.Field})
		} else {
			if p.ArrBase {
				unsupp("field of array-base pointer")
			}
			np.Path = append(append([]int{}, p.Path...), x.Field)
		}
		np.NonNil = true
		fr.regs[x] = np
	case *ssa.Field:
		sv, ok := fr.get(e, x.X).(StructV)
		if !ok {
			unsupp("Field on %T", fr.get(e, x.X))
		}
		fr.regs[x] = sv.F[x.Field]
	case *ssa.IndexAddr:
		fr.regs[x] = e.indexAddr(fr, st, x)
	case *ssa.Index:
		fr.regs[x] = e.index(fr, st, x)
	case *ssa.Slice:
		fr.regs[x] = e.sliceOp(fr, st, x)
	case *ssa.Convert:
		fr.regs[x] = e.convert(fr, st, fr.get(e, x.X), x.Type(), x.Pos())
	case *ssa.ChangeType:
		fr.regs[x] = retype(fr.get(e, x.X), x.Type())
	case *ssa.MakeInterface:
		h := e.fresh(e.rs(), "iface")
		e.assume(e.ridLt(e.ridLit(0), h))
		fr.regs[x] = Scalar{h, x.Type()}
		fr.ifaceOf[x] = fr.get(e, x.X)
	case *ssa.ChangeInterface:
		fr.regs[x] = retype(fr.get(e, x.X), x.Type())
		if v, ok := fr.ifaceOf[x.X]; ok {
			fr.ifaceOf[x] = v
		}
	case *ssa.TypeAssert:
		if dv, ok := fr.ifaceOf[x.X]; ok && types.Identical(dv.GoType(), x.AssertedType) {
			if x.CommaOk {
				fr.regs[x] = TupleV{Ty: x.Type(), Vs: []Val{dv, Scalar{TTrue, types.Typ[types.Bool]}}}
			} else {
				fr.regs[x] = dv
			}
			break
		}
		if x.CommaOk {
			tv := TupleV{Ty: x.Type()}
			tv.Vs = append(tv.Vs, e.freshWF(st, x.AssertedType, "ta"), Scalar{e.fresh(SBool, "taok"), types.Typ[types.Bool]})
			fr.regs[x] = tv
		} else {
			e.oblige("typeassert", fmt.Sprintf("typeassert#%d", e.ordinal("typeassert")), st.guard, TFalse, x.Pos())
			fr.regs[x] = e.freshWF(st, x.AssertedType, "ta")
		}
		e.note("type assertion modelled as havoc")
	case *ssa.Extract:
		tv, ok := fr.get(e, x.Tuple).(TupleV)
		if !ok {
			unsupp("Extract from %T", fr.get(e, x.Tuple))
		}
		fr.regs[x] = tv.Vs[x.Index]
	case *ssa.Call:
		v, cont := e.call(fr, st, &x.Call, x, x.Pos())
		if v != nil {
			fr.regs[x] = v
		}
		if !cont {
			return false
		}
	case *ssa.MakeSlice:
		fr.regs[x] = e.makeSlice(fr, st, x)
	case *ssa.MakeMap, *ssa.MakeChan, *ssa.MakeClosure:
		v := in.(ssa.Value)
		var h Term
		if _, isMap := in.(*ssa.MakeMap); isMap {
			// maps are regions: a new map has a fresh region id
			h = st.alloc
			st.alloc = e.ridNext(st.alloc)
		} else {
			h = e.fresh(e.rs(), "ref")
			e.assume(e.ridLt(e.ridLit(0), h))
		}
		fr.regs[v] = Scalar{h, v.Type()}
		if mm, ok := in.(*ssa.MakeMap); ok {
			e.mapInitEmpty(st, h, mm.Type())
		}
		if mc, ok := in.(*ssa.MakeClosure); ok {
			fr.regs[v] = Scalar{h, v.Type()}
			e.closures[h.S] = mc
		}
	case *ssa.MapUpdate:
		e.mapUpdate(fr, st, x)
	case *ssa.Lookup:
		fr.regs[x] = e.lookup(fr, st, x)
	case *ssa.Range:
		fr.regs[x] = Scalar{e.fresh(e.rs(), "rangeiter"), types.Typ[types.Int]}
	case *ssa.Next:
		tt := x.Type().(*types.Tuple)
		tv := TupleV{Ty: x.Type()}
		for i := 0; i < tt.Len(); i++ {
			ft := tt.At(i).Type()
			if b, ok := ft.(*types.Basic); ok && b.Kind() == types.Invalid {
				tv.Vs = append(tv.Vs, Scalar{e.ridLit(0), types.Typ[types.Int]})
				continue
			}
			tv.Vs = append(tv.Vs, e.freshWF(st, ft, "next"))
		}
		fr.regs[x] = tv
		e.note("range over map/string modelled as nondeterministic iteration")
	case *ssa.Defer:
		fr.defers = append(fr.defers, x)
	case *ssa.RunDefers:
		for i := len(fr.defers) - 1; i >= 0; i-- {
			d := fr.defers[i]
			_, cont := e.call(fr, st, &d.Call, nil, d.Pos())
			if !cont {
				return false
			}
		}
	case *ssa.Go:
		unsupp("go statement")
	case *ssa.Select, *ssa.Send:
		unsupp("channel operation")
	case *ssa.SliceToArrayPointer:
		unsupp("slice to array pointer")
	case *ssa.MultiConvert:
		unsupp("multiconvert")
	default:
		unsupp("instruction %T", in)
	}
	return true
}

func (e *Engine) freshWF(st *State, t types.Type, hint string) Val {
	if tt, ok := t.(*types.Tuple); ok {
		tv := TupleV{Ty: t}
		for i := 0; i < tt.Len(); i++ {
			tv.Vs = append(tv.Vs, e.freshWF(st, tt.At(i).Type(), hint))
		}
		return tv
	}
	v := e.freshVal(t, hint)
	e.assume(Implies(st.guard, e.wfVal(v, st.alloc)))
	return v
}

// forceHeap: arrays that are sliced or whose element addresses escape are laid out in the heap.
func (e *Engine) forceHeap(fr *Frame, a *ssa.Alloc) bool {
	et := a.Type().(*types.Pointer).Elem()
	if _, ok := et.Underlying().(*types.Array); !ok {
		return false
	}
	for _, r := range *a.Referrers() {
		if _, ok := r.(*ssa.Slice); ok {
			return true
		}
	}
	return false
}

func (e *Engine) allocHeap(st *State, et types.Type, pt types.Type) PtrV {
	rid := st.alloc
	st.alloc = e.ridNext(st.alloc)
	if at, ok := et.Underlying().(*types.Array); ok {
		// heap arrays live in the element maps
		p := PtrV{Ty: pt, Rid: rid, Idx: e.ar.idxLit(0), Root: at.Elem(), NonNil: true, ArrBase: true, ArrLen: at.Len()}
		for _, s := range e.slots(at.Elem()) {
			k := heapKey(at.Elem(), s.Path)
			m := e.heapGet(st, k, s.Sort)
			z := e.zeroTerm(s)
			st.heap[k] = Store(m, rid, Term{fmt.Sprintf("((as const %s) %s)", SArr(e.ar.idxSort(), s.Sort), z.S), SArr(e.ar.idxSort(), s.Sort)})
		}
		return p
	}
	p := PtrV{Ty: pt, Rid: rid, Idx: e.ar.idxLit(0), Root: et, NonNil: true}
	e.heapStore(st, et, "", e.zeroVal(et), rid, p.Idx)
	return p
}

func (e *Engine) nilCheck(st *State, p PtrV, pos token.Pos) {
	if p.Local != nil || p.NonNil {
		return
	}
	e.oblige("nil", fmt.Sprintf("nil#%d", e.ordinal("nil")), st.guard, Not(Eq(p.Rid, e.ridLit(0))), pos)
}

// load reads through a pointer.
func (e *Engine) load(st *State, p PtrV, pos token.Pos) Val {
	et := p.Ty.Underlying().(*types.Pointer).Elem()
	if p.Local != nil {
		c := st.cells[p.Local]
		if c == nil {
			unsupp("load from uninitialised cell %s", p.Local.Comment)
		}
		v := c.V
		for _, s := range p.CPath {
			v = e.cellStep(v, s)
		}
		return v
	}
	e.nilCheck(st, p, pos)
	if p.DynIdx != nil {
		// element selected by a non-constant index (in range: obligation emitted when the address was taken)
		pick := func(k int64) Val {
			pk := p
			pk.Path = append([]int{}, p.Path...)
			pk.Path[p.DynPos] = int(k)
			pk.DynIdx = nil
			pk.NonNil = true
			return e.load(st, pk, pos)
		}
		res := pick(0)
		for k := int64(1); k < p.DynLen; k++ {
			c := Eq(*p.DynIdx, e.ar.idxLit(k))
			res = mapVal2(pick(k), res, func(x, y Term) Term { return Ite(c, x, y) })
		}
		return res
	}
	if cp, ok := e.constPointerGlobal(p); ok {
		return cp
	}
	if p.ArrBase {
		// whole array value out of the element maps
		at := et.Underlying().(*types.Array)
		es := e.ar.scalarSortOrEmpty(at.Elem())
		if es == "" || at.Len() > 64 {
			unsupp("load of whole heap array %s", et)
		}
		k := heapKey(at.Elem(), "")
		m := e.heapGet(st, k, es)
		arr := e.zeroTerm(Slot{Sort: SArr(e.ar.idxSort(), es)})
		for i := int64(0); i < at.Len(); i++ {
			arr = Store(arr, e.ar.idxLit(i), Select(Select(m, p.Rid), e.ar.idxAdd(p.Idx, e.ar.idxLit(i))))
		}
		return ArrayV{Ty: et, A: arr}
	}
	prefix, lt := pathPrefix(p.Root, p.Path)
	if len(p.ArrIdx) > 0 {
		at := lt.Underlying().(*types.Array)
		es := e.ar.scalarSortOrEmpty(at.Elem())
		k := heapKey(p.Root, joinPath(prefix, "[]"))
		m := e.heapGet(st, k, SArr(e.ar.idxSort(), es))
		return Scalar{Select(Select(Select(m, p.Rid), p.Idx), p.ArrIdx[0]), at.Elem()}
	}
	v := e.heapLoad(st, p.Root, prefix, et, p.Rid, p.Idx)
	e.assume(Implies(st.guard, e.wfVal(v, st.alloc)))
	return v
}

func (e *Engine) cellStep(v Val, s cstep) Val {
	if s.idx != nil {
		av, ok := v.(ArrayV)
		if !ok {
			unsupp("cell index into %T", v)
		}
		if av.E != nil {
			unsupp("dynamic index into explicit array")
		}
		return Scalar{Select(av.A, *s.idx), av.Ty.Underlying().(*types.Array).Elem()}
	}
	sv, ok := v.(StructV)
	if !ok {
		unsupp("cell field of %T", v)
	}
	return sv.F[s.field]
}

func (e *Engine) cellUpdate(v Val, path []cstep, nv Val) Val {
	if len(path) == 0 {
		return nv
	}
	s := path[0]
	if s.idx != nil {
		av, ok := v.(ArrayV)
		if !ok || av.E != nil {
			unsupp("cell index store into %T", v)
		}
		if len(path) != 1 {
			unsupp("nested array store")
		}
		return ArrayV{Ty: av.Ty, A: Store(av.A, *s.idx, e.scalar(nv))}
	}
	sv, ok := v.(StructV)
	if !ok {
		unsupp("cell field store into %T", v)
	}
	n := StructV{Ty: sv.Ty, F: append([]Val{}, sv.F...)}
	n.F[s.field] = e.cellUpdate(sv.F[s.field], path[1:], nv)
	return n
}

func (e *Engine) store(fr *Frame, st *State, addr Val, v Val, pos token.Pos) {
	p, ok := addr.(PtrV)
	if !ok {
		unsupp("store through %T", addr)
	}
	if p.Local != nil {
		c := st.cells[p.Local]
		if c == nil {
			unsupp("store to uninitialised cell")
		}
		st.cells[p.Local] = &Cell{Name: c.Name, V: e.cellUpdate(c.V, p.CPath, v)}
		return
	}
	e.nilCheck(st, p, pos)
	if p.DynIdx != nil {
		for k := int64(0); k < p.DynLen; k++ {
			pk := p
			pk.Path = append([]int{}, p.Path...)
			pk.Path[p.DynPos] = int(k)
			pk.DynIdx = nil
			pk.NonNil = true
			cur := e.load(st, pk, pos)
			c := Eq(*p.DynIdx, e.ar.idxLit(k))
			e.store(fr, st, pk, mapVal2(v, cur, func(x, y Term) Term { return Ite(c, x, y) }), pos)
		}
		return
	}
	if p.ArrBase {
		av, ok := v.(ArrayV)
		at := p.Ty.Underlying().(*types.Pointer).Elem().Underlying().(*types.Array)
		if !ok || av.E != nil || at.Len() > 64 {
			unsupp("store of whole heap array")
		}
		es := e.ar.scalarSortOrEmpty(at.Elem())
		k := heapKey(at.Elem(), "")
		for i := int64(0); i < at.Len(); i++ {
			m := e.heapGet(st, k, es)
			ix := e.ar.idxAdd(p.Idx, e.ar.idxLit(i))
			st.heap[k] = Store(m, p.Rid, Store(Select(m, p.Rid), ix, Select(av.A, e.ar.idxLit(i))))
		}
		return
	}
	prefix, lt := pathPrefix(p.Root, p.Path)
	if len(p.ArrIdx) > 0 {
		at := lt.Underlying().(*types.Array)
		es := e.ar.scalarSortOrEmpty(at.Elem())
		k := heapKey(p.Root, joinPath(prefix, "[]"))
		m := e.heapGet(st, k, SArr(e.ar.idxSort(), es))
		inner := Select(m, p.Rid)
		st.heap[k] = Store(m, p.Rid, Store(inner, p.Idx, Store(Select(inner, p.Idx), p.ArrIdx[0], e.scalar(v))))
		return
	}
	e.heapStore(st, p.Root, prefix, v, p.Rid, p.Idx)
}

func (e *Engine) unop(fr *Frame, st *State, x *ssa.UnOp) Val {
	v := fr.get(e, x.X)
	switch x.Op {
	case token.MUL:
		p, ok := v.(PtrV)
		if !ok {
			unsupp("load through %T", v)
		}
		return e.load(st, p, x.Pos())
	case token.ARROW:
		unsupp("channel receive")
	}
	s := v.(Scalar)
	t, ov := e.ar.UnOp(x.Op, s.T, s.Ty)
	_ = ov
	return Scalar{t, x.Type()}
}

func (e *Engine) binop(fr *Frame, st *State, x *ssa.BinOp) Val {
	a, b := fr.get(e, x.X), fr.get(e, x.Y)
	return e.binopVals(st, x.Op, a, b, x.Type(), x.Pos(), true)
}

func (e *Engine) binopVals(st *State, op token.Token, a, b Val, rt types.Type, pos token.Pos, code bool) Val {
	as, aok := a.(Scalar)
	bs, bok := b.(Scalar)
	boolT := types.Typ[types.Bool]
	if aok && bok {
		if isString(as.Ty) {
			switch op {
			case token.EQL:
				return Scalar{Eq(as.T, bs.T), boolT}
			case token.NEQ:
				return Scalar{Not(Eq(as.T, bs.T)), boolT}
			case token.ADD:
				f := e.declareFun("strcat", []Sort{e.rs(), e.rs()}, e.rs())
				r := Term{fmt.Sprintf("(%s %s %s)", f, as.T.S, bs.T.S), e.rs()}
				e.assume(Eq(e.strlen(r), e.ar.idxAdd(e.strlen(as.T), e.strlen(bs.T))))
				return Scalar{r, rt}
			case token.LSS, token.LEQ, token.GTR, token.GEQ:
				f := e.declareFun("strcmp", []Sort{e.rs(), e.rs()}, e.rs())
				c := Term{fmt.Sprintf("(%s %s %s)", f, as.T.S, bs.T.S), e.rs()}
				ops := map[token.Token]string{token.LSS: "<", token.LEQ: "<=", token.GTR: ">", token.GEQ: ">="}
				return Scalar{app(SBool, ops[op], c, e.ridLit(0)), boolT}
			}
			unsupp("string op %s", op)
		}
		// division by zero, shifts
		if code && (op == token.QUO || op == token.REM) && isInteger(as.Ty) {
			zero := e.ar.intLit(bigInt(0), bs.Ty)
			e.oblige("div", fmt.Sprintf("div#%d", e.ordinal("div")), st.guard, Not(Eq(bs.T, zero)), pos)
		}
		if code && (op == token.SHL || op == token.SHR) {
			if _, sg, _ := intInfo(bs.Ty); sg {
				if _, isConst := constVal(bs.T); !isConst {
					zero := e.ar.intLit(bigInt(0), bs.Ty)
					ge, _ := e.ar.BinOp(token.GEQ, bs.T, zero, bs.Ty, bs.Ty)
					e.oblige("shift", fmt.Sprintf("shift#%d", e.ordinal("shift")), st.guard, ge, pos)
				}
			}
		}
		t, ov := e.ar.BinOp(op, as.T, bs.T, as.Ty, bs.Ty)
		if ov != nil && code {
			e.oblige("overflow", fmt.Sprintf("overflow#%d", e.ordinal("overflow")), st.guard, ov.Cond, pos)
			e.assume(Implies(st.guard, ov.Cond))
		}
		return Scalar{t, rt}
	}
	// composite comparisons
	if op == token.EQL || op == token.NEQ {
		var eq Term
		_, asl := a.(SliceV)
		_, bsl := b.(SliceV)
		switch {
		case asl || bsl:
			// comparison with nil
			var s SliceV
			if asl {
				s = a.(SliceV)
			} else {
				s = b.(SliceV)
			}
			eq = Eq(s.Rid, e.ridLit(0))
		default:
			ap, aIsP := a.(PtrV)
			bp, bIsP := b.(PtrV)
			if aIsP && bIsP {
				eq = e.ptrEq(ap, bp)
			} else if aIsP && bok {
				eq = Eq(ap.Rid, e.ridLit(0))
				if ap.Local != nil {
					eq = TFalse
				}
			} else if bIsP && aok {
				eq = Eq(bp.Rid, e.ridLit(0))
				if bp.Local != nil {
					eq = TFalse
				}
			} else {
				eq = e.valEq(a, b)
			}
		}
		if op == token.NEQ {
			eq = Not(eq)
		}
		return Scalar{eq, boolT}
	}
	unsupp("binop %s on %T, %T", op, a, b)
	return nil
}

func (e *Engine) ptrEq(a, b PtrV) Term {
	if a.Local != nil || b.Local != nil {
		if a.Local == b.Local && cpathStr(a.CPath) == cpathStr(b.CPath) {
			return TTrue
		}
		return TFalse
	}
	base := And(Eq(a.Rid, b.Rid), Eq(a.Idx, b.Idx))
	if typeKey(a.Root) != typeKey(b.Root) || fmt.Sprint(a.Path) != fmt.Sprint(b.Path) {
		// different static places: equal only if both nil
		return And(Eq(a.Rid, e.ridLit(0)), Eq(b.Rid, e.ridLit(0)))
	}
	return base
}

func (e *Engine) indexAddr(fr *Frame, st *State, x *ssa.IndexAddr) Val {
	base := fr.get(e, x.X)
	i := e.toIdx(fr.get(e, x.Index))
	a := e.ar
	switch b := base.(type) {
	case SliceV:
		e.oblige("index", fmt.Sprintf("index#%d", e.ordinal("index")), st.guard, And(a.idxLe(a.idxLit(0), i), a.idxLt(i, b.Len)), x.Pos())
		el := b.Ty.Underlying().(*types.Slice).Elem()
		return PtrV{Ty: x.Type(), Rid: b.Rid, Idx: e.elemIdx(b.Off, i), Root: el, NonNil: true}
	case PtrV:
		at, ok := b.Ty.Underlying().(*types.Pointer).Elem().Underlying().(*types.Array)
		if !ok {
			unsupp("IndexAddr on pointer to %s", b.Ty)
		}
		e.nilCheck(st, b, x.Pos())
		if _, isConst := constVal(i); !isConst || true {
			e.oblige("index", fmt.Sprintf("index#%d", e.ordinal("index")), st.guard, And(a.idxLe(a.idxLit(0), i), a.idxLt(i, a.idxLit(at.Len()))), x.Pos())
		}
		np := b
		np.Ty = x.Type()
		np.NonNil = true
		if b.Local != nil {
			ii := i
			np.CPath = append(append([]cstep{}, b.CPath...), cstep{idx: &ii})
			return np
		}
		if b.ArrBase {
			return PtrV{Ty: x.Type(), Rid: b.Rid, Idx: e.elemIdx(b.Idx, i), Root: b.Root, NonNil: true}
		}
		if e.ar.scalarSortOrEmpty(at.Elem()) == "" {
			// unrolled array of composite elements: only constant indices
			if at.Len() > maxUnrolledArray {
				unsupp("address of composite array element in struct (array too long)")
			}
			c, isConst := constVal(i)
			if !isConst {
				if b.DynIdx != nil {
					unsupp("nested non-constant indices into unrolled arrays")
				}
				// non-constant index: loads and stores go through a case split over the elements
				ii := i
				np.Path = append(append([]int{}, b.Path...), 0)
				np.DynPos, np.DynIdx, np.DynLen = len(np.Path)-1, &ii, at.Len()
				return np
			}
			np.Path = append(append([]int{}, b.Path...), int(c.Int64()))
			return np
		}
		np.ArrIdx = []Term{i}
		return np
	}
	unsupp("IndexAddr on %T", base)
	return nil
}

func (e *Engine) index(fr *Frame, st *State, x *ssa.Index) Val {
	base := fr.get(e, x.X)
	i := e.toIdx(fr.get(e, x.Index))
	a := e.ar
	switch b := base.(type) {
	case ArrayV:
		at := b.Ty.Underlying().(*types.Array)
		e.oblige("index", fmt.Sprintf("index#%d", e.ordinal("index")), st.guard, And(a.idxLe(a.idxLit(0), i), a.idxLt(i, a.idxLit(at.Len()))), x.Pos())
		if b.E != nil {
			if c, ok := constVal(i); ok && c.IsInt64() && c.Int64() >= 0 && c.Int64() < int64(len(b.E)) {
				return b.E[c.Int64()]
			}
			unsupp("index of explicit array")
		}
		return Scalar{Select(b.A, i), at.Elem()}
	case Scalar:
		if isString(b.Ty) {
			e.oblige("index", fmt.Sprintf("index#%d", e.ordinal("index")), st.guard, And(a.idxLe(a.idxLit(0), i), a.idxLt(i, e.strlen(b.T))), x.Pos())
			return Scalar{e.strAt(b.T, i), types.Typ[types.Uint8]}
		}
	}
	unsupp("Index on %T", base)
	return nil
}

func (e *Engine) strAt(h, i Term) Term {
	sa := e.declareFun("strat", []Sort{e.rs(), e.ar.idxSort()}, e.byteSort())
	t := Term{fmt.Sprintf("(%s %s %s)", sa, h.S, i.S), e.byteSort()}
	if e.ar.mode == ModeInt {
		e.assume(e.ar.rangeFact(t, types.Typ[types.Uint8]))
	}
	return t
}

func (e *Engine) sliceOp(fr *Frame, st *State, x *ssa.Slice) Val {
	base := fr.get(e, x.X)
	a := e.ar
	opt := func(v ssa.Value) *Term {
		if v == nil {
			return nil
		}
		t := e.toIdx(fr.get(e, v))
		return &t
	}
	lo, hi, mx := opt(x.Low), opt(x.High), opt(x.Max)
	zero := a.idxLit(0)
	if lo == nil {
		lo = &zero
	}
	name := fmt.Sprintf("slice#%d", e.ordinal("slice"))
	switch b := base.(type) {
	case SliceV:
		if hi == nil {
			hi = &b.Len
		}
		capT := b.Cap
		if mx == nil {
			mx = &capT
		}
		e.oblige("slice", name, st.guard, And(a.idxLe(zero, *lo), a.idxLe(*lo, *hi), a.idxLe(*hi, *mx), a.idxLe(*mx, b.Cap)), x.Pos())
		return SliceV{Ty: x.Type(), Rid: b.Rid, Off: a.idxAdd(b.Off, *lo), Len: a.idxSub(*hi, *lo), Cap: a.idxSub(*mx, *lo)}
	case Scalar:
		if isString(b.Ty) {
			l := e.strlen(b.T)
			if hi == nil {
				hi = &l
			}
			e.oblige("slice", name, st.guard, And(a.idxLe(zero, *lo), a.idxLe(*lo, *hi), a.idxLe(*hi, l)), x.Pos())
			f := e.declareFun("substr", []Sort{e.rs(), a.idxSort(), a.idxSort()}, e.rs())
			r := Term{fmt.Sprintf("(%s %s %s %s)", f, b.T.S, lo.S, hi.S), e.rs()}
			e.assume(Implies(st.guard, Eq(e.strlen(r), a.idxSub(*hi, *lo))))
			return Scalar{r, x.Type()}
		}
	case PtrV:
		if !b.ArrBase {
			unsupp("slicing pointer to array that is not heap-laid-out (%s)", b.Ty)
		}
		n := a.idxLit(b.ArrLen)
		if hi == nil {
			hi = &n
		}
		if mx == nil {
			mx = &n
		}
		e.oblige("slice", name, st.guard, And(a.idxLe(zero, *lo), a.idxLe(*lo, *hi), a.idxLe(*hi, *mx), a.idxLe(*mx, n)), x.Pos())
		return SliceV{Ty: x.Type(), Rid: b.Rid, Off: a.idxAdd(b.Idx, *lo), Len: a.idxSub(*hi, *lo), Cap: a.idxSub(*mx, *lo)}
	}
	unsupp("Slice on %T", base)
	return nil
}

func (e *Engine) makeSlice(fr *Frame, st *State, x *ssa.MakeSlice) Val {
	a := e.ar
	n := e.toIdx(fr.get(e, x.Len))
	c := e.toIdx(fr.get(e, x.Cap))
	e.oblige("make", fmt.Sprintf("make#%d", e.ordinal("make")), st.guard, And(a.idxLe(a.idxLit(0), n), a.idxLe(n, c)), x.Pos())
	return e.newSlice(st, x.Type(), n, c)
}

// newSlice allocates a zeroed region.
func (e *Engine) newSlice(st *State, t types.Type, n, c Term) SliceV {
	rid := st.alloc
	st.alloc = e.ridNext(st.alloc)
	el := t.Underlying().(*types.Slice).Elem()
	for _, s := range e.slots(el) {
		k := heapKey(el, s.Path)
		m := e.heapGet(st, k, s.Sort)
		z := e.zeroTerm(s)
		as := SArr(e.ar.idxSort(), s.Sort)
		st.heap[k] = Store(m, rid, Term{fmt.Sprintf("((as const %s) %s)", as, z.S), as})
	}
	return SliceV{Ty: t, Rid: rid, Off: e.ar.idxLit(0), Len: n, Cap: c}
}

func (e *Engine) convert(fr *Frame, st *State, v Val, to types.Type, pos token.Pos) Val {
	from := v.GoType()
	switch x := v.(type) {
	case Scalar:
		// string <-> slices
		if isString(from) {
			if sl, ok := to.Underlying().(*types.Slice); ok {
				n := e.fresh(e.ar.idxSort(), "convlen")
				e.assume(Implies(st.guard, And(e.ar.idxLe(e.ar.idxLit(0), n), e.ar.idxLe(n, e.strlen(x.T)))))
				if b, ok := sl.Elem().Underlying().(*types.Basic); ok && b.Kind() == types.Uint8 {
					e.assume(Implies(st.guard, Eq(n, e.strlen(x.T))))
				}
				s := e.newSlice(st, to, n, n)
				// contents unknown (havoc the fresh region)
				for _, slot := range e.slots(sl.Elem()) {
					k := heapKey(sl.Elem(), slot.Path)
					m := e.heapGet(st, k, slot.Sort)
					st.heap[k] = Store(m, s.Rid, e.fresh(SArr(e.ar.idxSort(), slot.Sort), "convdata"))
				}
				return s
			}
			if isString(to) {
				return retype(x, to)
			}
		}
		if isString(to) {
			h := e.fresh(e.rs(), "str")
			e.assume(e.ar.idxLe(e.ar.idxLit(0), e.strlen(h)))
			return Scalar{h, to}
		}
		if e.ar.scalarSortOrEmpty(to) == "" {
			unsupp("convert %s to %s", from, to)
		}
		return Scalar{e.ar.Convert(x.T, from, to, e.fresh), to}
	case SliceV:
		if isString(to) {
			h := e.fresh(e.rs(), "str")
			if b, ok := from.Underlying().(*types.Slice).Elem().Underlying().(*types.Basic); ok && b.Kind() == types.Uint8 {
				e.assume(Implies(st.guard, Eq(e.strlen(h), x.Len)))
			} else {
				e.assume(e.ar.idxLe(e.ar.idxLit(0), e.strlen(h)))
			}
			return Scalar{h, to}
		}
		return retype(x, to)
	case PtrV:
		return retype(x, to)
	}
	return retype(v, to)
}
