package main

import (
	"fmt"
	"go/types"
	"strings"

	"golang.org/x/tools/go/ssa"
)

// Val is a symbolic Go value.
type Val interface{ GoType() types.Type }

type Scalar struct {
	T  Term
	Ty types.Type
}

type StructV struct {
	Ty types.Type
	F  []Val
}

type SliceV struct {
	Ty                 types.Type
	Rid, Off, Len, Cap Term // Rid: Int; others: index sort
}

// PtrV is either a heap pointer (Rid, Idx, Root, Path) or a pointer to a local cell.
type PtrV struct {
	Ty   types.Type
	Rid  Term // Int; 0 = nil
	Idx  Term // index sort
	Root types.Type
	Path []int // field path below Root
	// element of an array-typed slot
	ArrIdx []Term
	// local: pointer into a non-escaping alloc cell
	Local *ssa.Alloc
	CPath []cstep
	NonNil  bool
	ArrBase bool // pointer to a heap array laid out in the element maps: Root is the element type
	ArrLen  int64
	// element of an unrolled array of composite elements selected by a non-constant index: Path[DynPos] is a
	// placeholder, the element is number DynIdx of DynLen
	DynPos int
	DynIdx *Term
	DynLen int64
}

type cstep struct {
	field int   // >=0: struct field
	idx   *Term // non-nil: array element
}

type ArrayV struct {
	Ty types.Type
	A  Term   // SMT array idx->elem (scalar elements)
	E  []Val  // alternatively, explicit elements (composite elements, constant length)
}

type TupleV struct {
	Ty types.Type
	Vs []Val
}

type Cell struct {
	Name string
	V    Val
}

func (v Scalar) GoType() types.Type  { return v.Ty }
func (v StructV) GoType() types.Type { return v.Ty }
func (v SliceV) GoType() types.Type  { return v.Ty }
func (v PtrV) GoType() types.Type    { return v.Ty }
func (v ArrayV) GoType() types.Type  { return v.Ty }
func (v TupleV) GoType() types.Type  { return v.Ty }

func typeKey(t types.Type) string {
	return types.TypeString(types.Unalias(t), nil)
}

// maxUnrolledArray: arrays of composite elements up to this length are modelled element by element.
const maxUnrolledArray = 16

// Slot is one scalar leaf of a flattened type.
type Slot struct {
	Path string // e.g. "Glyphs.len", "Bounds.Ascent", "" for a scalar root
	Sort Sort
	Ty   types.Type // Go type of the leaf (nil for slice header parts / pointer parts)
}

type unsupported struct{ msg string }

func (u unsupported) Error() string { return u.msg }

func unsupp(format string, args ...interface{}) {
	panic(unsupported{fmt.Sprintf(format, args...)})
}

// slots flattens type t into scalar leaves.
func (e *Engine) slots(t types.Type) []Slot {
	key := typeKey(t) + "|" + e.ar.mode.String()
	if s, ok := e.slotCache[key]; ok {
		return s
	}
	var out []Slot
	var rec func(t types.Type, prefix string)
	rec = func(t types.Type, prefix string) {
		join := func(s string) string {
			if prefix == "" {
				return s
			}
			return prefix + "." + s
		}
		switch u := t.Underlying().(type) {
		case *types.Struct:
			for i := 0; i < u.NumFields(); i++ {
				rec(u.Field(i).Type(), join(u.Field(i).Name()))
			}
		case *types.Slice:
			out = append(out, Slot{join("$rid"), e.rs(), nil}, Slot{join("$off"), e.ar.idxSort(), nil},
				Slot{join("$len"), e.ar.idxSort(), nil}, Slot{join("$cap"), e.ar.idxSort(), nil})
		case *types.Pointer:
			out = append(out, Slot{join("$prid"), e.rs(), nil}, Slot{join("$pidx"), e.ar.idxSort(), nil})
		case *types.Array:
			es := e.ar.scalarSortOrEmpty(u.Elem())
			if es == "" {
				// small arrays of composite elements are unrolled like struct fields "[k]"
				if u.Len() > maxUnrolledArray {
					unsupp("array of composite elements %s", t)
				}
				for k := int64(0); k < u.Len(); k++ {
					rec(u.Elem(), join(fmt.Sprintf("[%d]", k)))
				}
				return
			}
			out = append(out, Slot{join("[]"), SArr(e.ar.idxSort(), es), u.Elem()})
		default:
			s := e.ar.scalarSortOrEmpty(t)
			if s == "" {
				unsupp("no sort for type %s", t)
			}
			out = append(out, Slot{prefix, s, t})
		}
	}
	rec(t, "")
	e.slotCache[key] = out
	return out
}

// build constructs a Val of type t from a slot-term supplier (called in slot order).
func (e *Engine) build(t types.Type, next func(s Slot) Term) Val {
	var rec func(t types.Type, prefix string) Val
	rec = func(t types.Type, prefix string) Val {
		join := func(s string) string {
			if prefix == "" {
				return s
			}
			return prefix + "." + s
		}
		switch u := t.Underlying().(type) {
		case *types.Struct:
			sv := StructV{Ty: t}
			for i := 0; i < u.NumFields(); i++ {
				sv.F = append(sv.F, rec(u.Field(i).Type(), join(u.Field(i).Name())))
			}
			return sv
		case *types.Slice:
			r := next(Slot{join("$rid"), e.rs(), nil})
			o := next(Slot{join("$off"), e.ar.idxSort(), nil})
			l := next(Slot{join("$len"), e.ar.idxSort(), nil})
			c := next(Slot{join("$cap"), e.ar.idxSort(), nil})
			return SliceV{Ty: t, Rid: r, Off: o, Len: l, Cap: c}
		case *types.Pointer:
			r := next(Slot{join("$prid"), e.rs(), nil})
			i := next(Slot{join("$pidx"), e.ar.idxSort(), nil})
			return PtrV{Ty: t, Rid: r, Idx: i, Root: u.Elem()}
		case *types.Array:
			es := e.ar.scalarSortOrEmpty(u.Elem())
			if es == "" {
				if u.Len() > maxUnrolledArray {
					unsupp("array of composite elements %s", t)
				}
				av := ArrayV{Ty: t, E: []Val{}}
				for k := int64(0); k < u.Len(); k++ {
					av.E = append(av.E, rec(u.Elem(), join(fmt.Sprintf("[%d]", k))))
				}
				return av
			}
			return ArrayV{Ty: t, A: next(Slot{join("[]"), SArr(e.ar.idxSort(), es), u.Elem()})}
		default:
			s := e.ar.scalarSortOrEmpty(t)
			if s == "" {
				unsupp("no sort for type %s", t)
			}
			return Scalar{T: next(Slot{prefix, s, t}), Ty: t}
		}
	}
	return rec(t, "")
}

// flatten lists the slot terms of v in slot order.
func (e *Engine) flatten(v Val) []Term {
	var out []Term
	var rec func(v Val)
	rec = func(v Val) {
		switch x := v.(type) {
		case Scalar:
			out = append(out, x.T)
		case StructV:
			for _, f := range x.F {
				rec(f)
			}
		case SliceV:
			out = append(out, x.Rid, x.Off, x.Len, x.Cap)
		case PtrV:
			if x.Local != nil {
				unsupp("flatten of pointer to local cell %s", x.Local.Comment)
			}
			if len(x.Path) > 0 || len(x.ArrIdx) > 0 {
				unsupp("storing interior pointer (path %v) of %s", x.Path, x.Root)
			}
			out = append(out, x.Rid, x.Idx)
		case ArrayV:
			if x.E != nil {
				for _, f := range x.E {
					rec(f)
				}
				return
			}
			out = append(out, x.A)
		default:
			unsupp("flatten %T", v)
		}
	}
	rec(v)
	return out
}

func (e *Engine) zeroTerm(s Slot) Term {
	switch {
	case s.Sort == SBool:
		return TFalse
	case s.Sort == SInt:
		return IntLit(0)
	case s.Sort == SReal:
		return Term{"0.0", SReal}
	case s.Sort.IsBV():
		return BVLit(bigInt(0), s.Sort.BVWidth())
	case strings.HasPrefix(string(s.Sort), "(Array"):
		_, es := arrSorts(s.Sort)
		z := e.zeroTerm(Slot{Sort: es})
		return Term{fmt.Sprintf("((as const %s) %s)", s.Sort, z.S), s.Sort}
	}
	panic("zeroTerm " + string(s.Sort))
}

func (e *Engine) zeroVal(t types.Type) Val {
	return e.build(t, func(s Slot) Term { return e.zeroTerm(s) })
}

// heapKey names the memory map for (root type, slot path).
func heapKey(root types.Type, slotPath string) string {
	return typeKey(root) + "|" + slotPath
}

// pathString: the slot-path prefix for a field path below root.
func pathPrefix(root types.Type, path []int) (string, types.Type) {
	t := root
	var parts []string
	for _, f := range path {
		if at, ok := t.Underlying().(*types.Array); ok {
			// unrolled array of composite elements: step = element index
			parts = append(parts, fmt.Sprintf("[%d]", f))
			t = at.Elem()
			continue
		}
		st, ok := t.Underlying().(*types.Struct)
		if !ok {
			unsupp("field path through non-struct %s", t)
		}
		parts = append(parts, st.Field(f).Name())
		t = st.Field(f).Type()
	}
	return strings.Join(parts, "."), t
}

func joinPath(a, b string) string {
	if a == "" {
		return b
	}
	if b == "" {
		return a
	}
	return a + "." + b
}
