package main

import (
	"strings"
)

// sexp is a parsed s-expression node.
type sexp struct {
	atom string
	kids []*sexp
	text string
}

func parseSexp(s string) *sexp {
	pos := 0
	var parse func() *sexp
	parse = func() *sexp {
		for pos < len(s) && (s[pos] == ' ' || s[pos] == '\n' || s[pos] == '\t') {
			pos++
		}
		if pos >= len(s) {
			return nil
		}
		start := pos
		if s[pos] == '(' {
			pos++
			n := &sexp{}
			for {
				for pos < len(s) && (s[pos] == ' ' || s[pos] == '\n' || s[pos] == '\t') {
					pos++
				}
				if pos >= len(s) {
					break
				}
				if s[pos] == ')' {
					pos++
					break
				}
				k := parse()
				if k == nil {
					break
				}
				n.kids = append(n.kids, k)
			}
			n.text = s[start:pos]
			return n
		}
		if s[pos] == '|' {
			j := strings.IndexByte(s[pos+1:], '|')
			pos += j + 2
			return &sexp{atom: s[start:pos], text: s[start:pos]}
		}
		for pos < len(s) && s[pos] != ' ' && s[pos] != ')' && s[pos] != '(' && s[pos] != '\n' {
			pos++
		}
		return &sexp{atom: s[start:pos], text: s[start:pos]}
	}
	return parse()
}

func isQVar(a string) bool {
	i := strings.Index(a, "!q")
	return i > 0 || a == "i!q" || a == "r!q"
}

// collect the quantified-variable atoms occurring in n
func (n *sexp) qvars(out map[string]bool) {
	if n.kids == nil {
		if isQVar(n.atom) {
			out[n.atom] = true
		}
		return
	}
	for _, k := range n.kids {
		k.qvars(out)
	}
}

// inferTriggers finds minimal (select A I) terms mentioning v and no other quantified variable.
func inferTriggers(body string, v string) []string {
	root := parseSexp(body)
	if root == nil {
		return nil
	}
	seen := map[string]bool{}
	var out []string
	var walk func(n *sexp) bool // returns true if a trigger was found inside
	walk = func(n *sexp) bool {
		if n.kids == nil {
			return false
		}
		found := false
		for _, k := range n.kids {
			if walk(k) {
				found = true
			}
		}
		if found {
			return true
		}
		if len(n.kids) == 3 && n.kids[0].atom == "select" {
			qs := map[string]bool{}
			n.qvars(qs)
			if qs[v] && len(qs) == 1 {
				// no arithmetic directly on v at top of index? accept idx(...) or bare variable or nested select
				idxs := map[string]bool{}
				n.kids[2].qvars(idxs)
				if idxs[v] && !hasArith(n.kids[2]) {
					if !seen[n.text] {
						seen[n.text] = true
						out = append(out, n.text)
					}
					return true
				}
			}
		}
		return false
	}
	walk(root)
	if len(out) > 4 {
		out = out[:4]
	}
	return out
}

func hasArith(n *sexp) bool {
	if n.kids == nil {
		return false
	}
	switch n.kids[0].atom {
	case "+", "-", "*", "bvadd", "bvsub", "bvmul", "div", "mod":
		return true
	}
	for _, k := range n.kids[1:] {
		if hasArith(k) {
			return true
		}
	}
	return false
}

// rebaseQuantifier: if the bound variable v occurs in index terms only as (+ B v) with one fixed B,
// change variables to j = B + v so that the index terms become plain variables (good triggers).
// Returns the new body, the new variable name and B ("" if no rewrite applies).
func rebaseQuantifier(body string, v string, bv bool) (string, string, string) {
	root := parseSexp(body)
	if root == nil {
		return body, v, ""
	}
	plus, minus := "+", "-"
	if bv {
		plus, minus = "bvadd", "bvsub"
	}
	bases := map[string]bool{}
	var walk func(n *sexp)
	walk = func(n *sexp) {
		if n.kids == nil {
			return
		}
		if len(n.kids) == 3 && n.kids[0].atom == plus && n.kids[2].atom == v {
			qs := map[string]bool{}
			n.kids[1].qvars(qs)
			if len(qs) == 0 {
				bases[n.kids[1].text] = true
			}
		}
		for _, k := range n.kids {
			walk(k)
		}
	}
	walk(root)
	if len(bases) != 1 {
		return body, v, ""
	}
	var B string
	for b := range bases {
		B = b
	}
	j := v + "r"
	body = strings.ReplaceAll(body, "("+plus+" "+B+" "+v+")", j)
	// remaining occurrences of v as a whole token
	var sb strings.Builder
	for i := 0; i < len(body); {
		if strings.HasPrefix(body[i:], v) {
			end := i + len(v)
			okL := i == 0 || body[i-1] == ' ' || body[i-1] == '('
			okR := end >= len(body) || body[end] == ' ' || body[end] == ')'
			if okL && okR {
				sb.WriteString("(" + minus + " " + j + " " + B + ")")
				i = end
				continue
			}
		}
		sb.WriteByte(body[i])
		i++
	}
	return sb.String(), j, B
}
