package main

import (
	"bytes"
	"context"
	"encoding/json"
	"fmt"
	"go/types"
	"math/big"
	"os"
	"os/exec"
	"path/filepath"
	"sort"
	"strconv"
	"strings"
	"time"

	"golang.org/x/tools/go/ssa"
)

// replayObligation tries to turn a failed obligation into a concrete failing input of the real code.
// Returns the replay file and whether the failure was confirmed by running the real code.
func (w *World) replayObligation(out *checkOutcome, o *Oblig, dir string) (string, bool) {
	path := filepath.Join(dir, sanitizeFile(o.Name)+".txt")
	var sb strings.Builder
	fmt.Fprintf(&sb, "obligation: %s\nkind: %s\nat: %s\nstatus: %s\n", o.Name, o.Kind, o.Pos, statusOf(o))
	if o.Res != nil {
		fmt.Fprintf(&sb, "solver: %s (%d ms)\nsolver output:\n%s\n", o.Res.Solver, o.Res.Ms, firstLines(o.Res.Output, 40))
	}
	confirmed := false
	if o.Res != nil && o.Res.Status == "sat" && !o.WantSat && o.Res.Solver != "ground-eval" && o.Res.Solver != "ssa-scan" {
		var eng *Engine
		for _, r := range out.results {
			if r.Key == o.Fn {
				eng = r.Engine
			}
		}
		if eng != nil {
			ok, log := func() (ok bool, log string) {
				defer func() {
					if r := recover(); r != nil {
						ok, log = false, fmt.Sprintf("replay construction failed: %v\n", r)
					}
				}()
				return w.runReplay(eng, o, dir)
			}()
			sb.WriteString(log)
			confirmed = ok
		}
	}
	if !confirmed {
		sb.WriteString("replay: no-failing-input-found (the obligation is reported because it is claimed as proved on the unchanged tree and is not discharged now)\n")
	}
	os.WriteFile(path, []byte(sb.String()), 0o644)
	return path, confirmed
}

// checkKnownFinding: (1) the recorded witness must still fail on the real code (otherwise the entry is stale and the
// obligation is treated like any other); (2) the obligation must hold outside the recorded class of inputs: the function
// is re-verified with the extra precondition !(class). Only then is the failure the known one.
func (w *World) checkKnownFinding(out *checkOutcome, o *Oblig, kf KnownFinding, fullSec int) (bool, string) {
	var detail strings.Builder
	if kf.Witness != "" {
		ok, log := runWitness(filepath.Join(verifRoot, kf.Witness), kf.Pkg)
		if ok {
			fmt.Fprintf(&detail, "the recorded witness %s no longer fails on the real code: the known-finding entry is stale\n%s\n", kf.Witness, firstLines(log, 6))
			return false, detail.String()
		}
		fmt.Fprintf(&detail, "witness %s still fails on the real code\n", kf.Witness)
	}
	if kf.Class == "" {
		return true, detail.String()
	}
	fn := w.funcs[o.Fn]
	ct := w.contracts[o.Fn]
	if fn == nil || ct == nil {
		return false, detail.String() + "function or contract not found for class-restricted re-proof\n"
	}
	cl, err := parseClause("!("+kf.Class+")", filepath.Join(verifRoot, "known_findings.jsonl"), 0)
	if err != nil {
		return false, detail.String() + "class predicate does not parse: " + err.Error() + "\n"
	}
	cl.Label = "outside-known-class"
	ct2 := *ct
	ct2.Requires = append(append([]Clause{}, ct.Requires...), cl)
	r := w.verifyFunc(fn, &ct2, w.modeFor(ct))
	if r.Err != "" {
		return false, detail.String() + "re-verification with the class excluded failed: " + r.Err + "\n"
	}
	var target *Oblig
	for _, x := range r.Obls {
		if x.Name == o.Name {
			target = x
		}
	}
	if target == nil {
		return false, detail.String() + "obligation not generated in the class-restricted run\n"
	}
	r.Obls = []*Oblig{target}
	solveAll([]*FuncResult{r}, 5, fullSec, 2)
	if target.Res != nil && target.Res.Proved(target) {
		fmt.Fprintf(&detail, "with the recorded class excluded (requires !(%s)) the obligation is discharged by %s\n", kf.Class, target.Res.Solver)
		return true, detail.String()
	}
	fmt.Fprintf(&detail, "even with the recorded class excluded the obligation is not discharged (%s): this is a different violation\n", statusOf(target))
	return false, detail.String()
}

// runWitness runs a committed witness test in-package through an overlay; returns whether it PASSES.
func runWitness(file, pkg string) (bool, string) {
	ov, err := os.CreateTemp("/var/tmp", "govc-ov-*.json")
	if err != nil {
		return false, err.Error()
	}
	defer os.Remove(ov.Name())
	js, _ := json.Marshal(map[string]map[string]string{"Replace": {filepath.Join(repoRoot, pkg, "zz_verif_witness_test.go"): file}})
	ov.Write(js)
	ov.Close()
	ctx, cancel := context.WithTimeout(context.Background(), 180*time.Second)
	defer cancel()
	cmd := exec.CommandContext(ctx, "go", "test", "-overlay", ov.Name(), "-vet=off", "-count=1", "-timeout", "120s", "-run", "TestVerifWitness", "./"+pkg)
	cmd.Dir = repoRoot
	cmd.Env = append(os.Environ(), "GOFLAGS=-mod=mod", "GOPROXY=off", "GOSUMDB=off", "GOTOOLCHAIN=local")
	var outb bytes.Buffer
	cmd.Stdout = &outb
	cmd.Stderr = &outb
	err = cmd.Run()
	return err == nil, outb.String()
}

func (w *World) verifyLemmas(prop string) []*FuncResult { return nil }

// ---------------------------------------------------------------- model values

func parseModelInt(s string) (*big.Int, bool) {
	s = strings.TrimSpace(s)
	if strings.HasPrefix(s, "#x") {
		n := new(big.Int)
		_, ok := n.SetString(s[2:], 16)
		return n, ok
	}
	if strings.HasPrefix(s, "#b") {
		n := new(big.Int)
		_, ok := n.SetString(s[2:], 2)
		return n, ok
	}
	if strings.HasPrefix(s, "(- ") {
		n, ok := parseModelInt(strings.TrimSuffix(s[3:], ")"))
		if ok {
			return n.Neg(n), true
		}
		return nil, false
	}
	if strings.HasPrefix(s, "(_ bv") {
		var v string
		var wd int
		if _, err := fmt.Sscanf(s, "(_ bv%s %d)", &v, &wd); err == nil {
			n := new(big.Int)
			_, ok := n.SetString(v, 10)
			return n, ok
		}
	}
	n := new(big.Int)
	_, ok := n.SetString(strings.TrimSuffix(s, ".0"), 10)
	return n, ok
}

func parseModelReal(s string) (float64, bool) {
	s = strings.TrimSpace(s)
	if strings.HasPrefix(s, "(- ") {
		f, ok := parseModelReal(strings.TrimSuffix(s[3:], ")"))
		return -f, ok
	}
	if strings.HasPrefix(s, "(/ ") {
		parts := strings.Fields(strings.TrimSuffix(s[3:], ")"))
		if len(parts) == 2 {
			a, e1 := strconv.ParseFloat(parts[0], 64)
			b, e2 := strconv.ParseFloat(parts[1], 64)
			if e1 == nil && e2 == nil && b != 0 {
				return a / b, true
			}
		}
		return 0, false
	}
	f, err := strconv.ParseFloat(s, 64)
	return f, err == nil
}

// modelInt64 interprets a model value as a Go integer of type t.
func modelInt64(s string, t types.Type) (string, bool) {
	n, ok := parseModelInt(s)
	if !ok {
		return "", false
	}
	wd, signed, isInt := intInfo(t)
	if !isInt {
		return "", false
	}
	m := pow2(wd)
	n.Mod(n, m)
	if signed && n.Cmp(pow2(wd-1)) >= 0 {
		n.Sub(n, m)
	}
	return n.String(), true
}

// ---------------------------------------------------------------- replay construction

type replayCtx struct {
	w       *World
	e       *Engine
	o       *Oblig
	pkg     *types.Package
	imports map[string]string // path -> name
	pins    []string          // assertions pinning fetched values
	solver  string
	code    strings.Builder
	nvar    int
}

func (rc *replayCtx) qual(p *types.Package) string {
	if p == rc.pkg {
		return ""
	}
	rc.imports[p.Path()] = p.Name()
	return p.Name()
}

func (rc *replayCtx) typeStr(t types.Type) string { return types.TypeString(t, rc.qual) }

// fetch asks the solver for the values of terms under the current pins.
func (rc *replayCtx) fetch(terms []Term) []string {
	if len(terms) == 0 {
		return nil
	}
	var nts []NamedTerm
	for i, t := range terms {
		nts = append(nts, NamedTerm{strconv.Itoa(i), t})
	}
	m, raw := rc.e.getModel(rc.o, nts, strings.Join(rc.pins, "\n")+"\n", rc.solver)
	if m == nil {
		panic("model extraction failed: " + firstLines(raw, 3))
	}
	var out []string
	for i, t := range terms {
		v := m[strconv.Itoa(i)]
		out = append(out, v)
		if t.Sort == SInt || t.Sort == SBool || t.Sort.IsBV() {
			rc.pins = append(rc.pins, fmt.Sprintf("(assert (= %s %s))", t.S, v))
		}
	}
	return out
}

const replayMaxLen = 6

// buildValue emits Go statements that construct a value equal to the model's view of v (in heap `heap`) into variable name.
// Returns false if the value cannot be reproduced faithfully.
func (rc *replayCtx) buildValue(name string, v Val, st *State, depth int) bool {
	e := rc.e
	ok := true
	switch x := v.(type) {
	case Scalar:
		vals := rc.fetch([]Term{x.T})
		lit, good := rc.goLiteral(vals[0], x.Ty)
		if !good {
			ok = false
			break
		}
		if lit != "" {
			fmt.Fprintf(&rc.code, "\t%s = %s\n", name, lit)
		}
	case StructV:
		stt := x.Ty.Underlying().(*types.Struct)
		for i, f := range x.F {
			if stt.Field(i).Name() == "_" {
				continue
			}
			if !rc.buildValue(name+"."+stt.Field(i).Name(), f, st, depth) {
				ok = false
			}
		}
	case SliceV:
		vals := rc.fetch([]Term{x.Rid, x.Len, x.Cap})
		rid, _ := parseModelInt(vals[0])
		ln, _ := parseModelInt(vals[1])
		cp, _ := parseModelInt(vals[2])
		if rid == nil || ln == nil || cp == nil {
			return false
		}
		if rid.Sign() == 0 {
			break // nil slice
		}
		if ln.Cmp(big.NewInt(replayMaxLen)) > 0 || depth > 2 {
			return false
		}
		L := int(ln.Int64())
		extra := new(big.Int).Sub(cp, ln)
		C := L
		if extra.Sign() > 0 {
			if extra.Cmp(big.NewInt(4)) > 0 {
				C = L + 4
			} else {
				C = L + int(extra.Int64())
			}
		}
		el := x.Ty.Underlying().(*types.Slice).Elem()
		fmt.Fprintf(&rc.code, "\t%s = make(%s, %d, %d)\n", name, rc.typeStr(x.Ty), L, C)
		for k := 0; k < L; k++ {
			p := PtrV{Ty: types.NewPointer(el), Rid: x.Rid, Idx: e.elemIdx(x.Off, e.ar.idxLit(int64(k))), Root: el, NonNil: true}
			e.quiet++
			ev := e.load(st, p, 0)
			e.quiet--
			if !rc.buildValue(fmt.Sprintf("%s[%d]", name, k), ev, st, depth+1) {
				ok = false
			}
		}
	case PtrV:
		if x.Local != nil {
			return false
		}
		vals := rc.fetch([]Term{x.Rid})
		rid, _ := parseModelInt(vals[0])
		if rid == nil {
			return false
		}
		if rid.Sign() == 0 {
			break
		}
		if depth > 1 {
			return false
		}
		if len(x.Path) > 0 || len(x.ArrIdx) > 0 || x.ArrBase {
			return false
		}
		et := x.Ty.Underlying().(*types.Pointer).Elem()
		fmt.Fprintf(&rc.code, "\t%s = new(%s)\n", name, rc.typeStr(et))
		e.quiet++
		pv := e.load(st, x, 0)
		e.quiet--
		if _, isStruct := et.Underlying().(*types.Struct); isStruct {
			if !rc.buildValue("(*"+name+")", pv, st, depth+1) {
				ok = false
			}
		} else if !rc.buildValue("*"+name, pv, st, depth+1) {
			ok = false
		}
	case ArrayV:
		at := x.Ty.Underlying().(*types.Array)
		if x.E != nil || at.Len() > 16 {
			return false
		}
		for k := int64(0); k < at.Len(); k++ {
			vals := rc.fetch([]Term{Select(x.A, e.ar.idxLit(k))})
			lit, good := rc.goLiteral(vals[0], at.Elem())
			if !good {
				return false
			}
			if lit != "" {
				fmt.Fprintf(&rc.code, "\t%s[%d] = %s\n", name, k, lit)
			}
		}
	default:
		return false
	}
	return ok
}

// goLiteral renders a model value as a Go expression of type t ("" = leave zero).
func (rc *replayCtx) goLiteral(val string, t types.Type) (string, bool) {
	switch {
	case isBool(t):
		return fmt.Sprintf("%s(%s)", rc.typeStr(t), strings.TrimSpace(val)), true
	case isInteger(t):
		s, ok := modelInt64(val, t)
		if !ok {
			return "", false
		}
		if s == "0" {
			return "", true
		}
		if _, signed, _ := intInfo(t); !signed || !strings.HasPrefix(s, "-") {
			return fmt.Sprintf("%s(%s)", rc.typeStr(t), s), true
		}
		return fmt.Sprintf("%s(%s)", rc.typeStr(t), s), true
	case isFloat(t):
		f, ok := parseModelReal(val)
		if !ok {
			return "", false
		}
		return fmt.Sprintf("%s(%v)", rc.typeStr(t), strconv.FormatFloat(f, 'g', -1, 64)), true
	}
	switch t.Underlying().(type) {
	case *types.Map, *types.Interface, *types.Signature, *types.Chan:
		return "", true // left nil
	}
	if isString(t) {
		return "", true // left empty: strings are abstract in the model
	}
	return "", false
}

// outputPrints emits code printing every scalar leaf of the value held in Go variable `name`, and collects the
// corresponding model terms.
func (rc *replayCtx) outputs(label, name string, v Val, st *State, terms *[]NamedTerm, depth int) {
	e := rc.e
	switch x := v.(type) {
	case Scalar:
		switch {
		case isInteger(x.Ty):
			_, signed, _ := intInfo(x.Ty)
			if signed {
				fmt.Fprintf(&rc.code, "\tfmt.Printf(\"OUT %s %%d\\n\", int64(%s))\n", label, name)
			} else {
				fmt.Fprintf(&rc.code, "\tfmt.Printf(\"OUT %s %%d\\n\", uint64(%s))\n", label, name)
			}
			*terms = append(*terms, NamedTerm{label, x.T})
		case isBool(x.Ty):
			fmt.Fprintf(&rc.code, "\tfmt.Printf(\"OUT %s %%v\\n\", bool(%s))\n", label, name)
			*terms = append(*terms, NamedTerm{label, x.T})
		case isFloat(x.Ty):
			fmt.Fprintf(&rc.code, "\tfmt.Printf(\"OUT %s %%v\\n\", float64(%s))\n", label, name)
			*terms = append(*terms, NamedTerm{label, x.T})
		}
	case StructV:
		stt := x.Ty.Underlying().(*types.Struct)
		for i, f := range x.F {
			if stt.Field(i).Name() == "_" {
				continue
			}
			rc.outputs(label+"."+stt.Field(i).Name(), name+"."+stt.Field(i).Name(), f, st, terms, depth)
		}
	case SliceV:
		fmt.Fprintf(&rc.code, "\tfmt.Printf(\"OUT %s.len %%d\\n\", int64(len(%s)))\n", label, name)
		*terms = append(*terms, NamedTerm{label + ".len", x.Len})
	case TupleV:
		for i, f := range x.Vs {
			rc.outputs(fmt.Sprintf("%s%d", label, i), fmt.Sprintf("%s%d", name, i), f, st, terms, depth)
		}
	}
	_ = e
}

// postOutputs prints the post-state of memory reachable from a parameter (pointee fields, slice elements).
func (rc *replayCtx) postOutputs(label, name string, entryVal Val, exit *State, terms *[]NamedTerm) {
	e := rc.e
	switch x := entryVal.(type) {
	case PtrV:
		if x.Local != nil || len(x.Path) > 0 || x.ArrBase {
			return
		}
		vals := rc.fetch([]Term{x.Rid})
		if rid, _ := parseModelInt(vals[0]); rid == nil || rid.Sign() == 0 {
			return
		}
		e.quiet++
		pv := e.load(exit, x, 0)
		e.quiet--
		rc.postVal(label+"^", "(*"+name+")", pv, x, exit, terms, 0)
	case SliceV:
		vals := rc.fetch([]Term{x.Rid, x.Len})
		rid, _ := parseModelInt(vals[0])
		ln, _ := parseModelInt(vals[1])
		if rid == nil || rid.Sign() == 0 || ln == nil || ln.Cmp(big.NewInt(replayMaxLen)) > 0 {
			return
		}
		el := x.Ty.Underlying().(*types.Slice).Elem()
		for k := 0; k < int(ln.Int64()); k++ {
			p := PtrV{Ty: types.NewPointer(el), Rid: x.Rid, Idx: e.elemIdx(x.Off, e.ar.idxLit(int64(k))), Root: el, NonNil: true}
			e.quiet++
			ev := e.load(exit, p, 0)
			e.quiet--
			rc.postVal(fmt.Sprintf("%s[%d]", label, k), fmt.Sprintf("%s[%d]", name, k), ev, p, exit, terms, 1)
		}
	case StructV:
		stt := x.Ty.Underlying().(*types.Struct)
		for i, f := range x.F {
			rc.postOutputs(label+"."+stt.Field(i).Name(), name+"."+stt.Field(i).Name(), f, exit, terms)
		}
	}
}

func (rc *replayCtx) postVal(label, name string, v Val, at PtrV, exit *State, terms *[]NamedTerm, depth int) {
	switch x := v.(type) {
	case Scalar:
		rc.outputs(label, name, x, exit, terms, depth)
	case StructV:
		stt := x.Ty.Underlying().(*types.Struct)
		for i, f := range x.F {
			if stt.Field(i).Name() == "_" {
				continue
			}
			rc.postVal(label+"."+stt.Field(i).Name(), name+"."+stt.Field(i).Name(), f, at, exit, terms, depth)
		}
	case SliceV:
		// nested slice (e.g. run.Glyphs): its elements after the call, addressed through the entry header
		if depth >= 1 {
			return
		}
		rc.postOutputs(label, name, x, exit, terms)
	}
}

// runReplay builds and runs the in-package replay test; returns confirmation and a log.
func (w *World) runReplay(eng *Engine, o *Oblig, dir string) (bool, string) {
	fn := eng.fn
	if fn == nil || fn.Pkg == nil || eng.entry == nil {
		return false, ""
	}
	rc := &replayCtx{w: w, e: eng, o: o, pkg: fn.Pkg.Pkg, imports: map[string]string{}, solver: o.Res.Solver}
	if strings.Contains(rc.solver, "(") {
		rc.solver = rc.solver[:strings.Index(rc.solver, "(")]
	}
	var log strings.Builder
	entry := eng.entry
	// prefer a small counterexample: ask for short top-level slices first
	var small []string
	var collect func(v Val)
	collect = func(v Val) {
		switch x := v.(type) {
		case SliceV:
			small = append(small, fmt.Sprintf("(assert %s)", eng.ar.idxLe(x.Len, eng.ar.idxLit(3)).S))
		case StructV:
			for _, f := range x.F {
				collect(f)
			}
		}
	}
	for _, a := range eng.top.args {
		collect(a)
	}
	build := func() ([]string, bool) {
		rc.code.Reset()
		var argNames []string
		faithful := true
		for i, p := range fn.Params {
			name := fmt.Sprintf("a%d", i)
			argNames = append(argNames, name)
			fmt.Fprintf(&rc.code, "\tvar %s %s\n", name, rc.typeStr(p.Type()))
			if !rc.buildValue(name, eng.top.args[i], entry, 0) {
				faithful = false
			}
		}
		return argNames, faithful
	}
	var argNames []string
	faithful := false
	if len(small) > 0 {
		func() {
			defer func() {
				if r := recover(); r != nil {
					faithful = false
				}
			}()
			rc.pins = append([]string{}, small...)
			argNames, faithful = build()
		}()
	}
	if !faithful {
		rc.pins = nil
		argNames, faithful = build()
	}
	if !faithful {
		log.WriteString("replay: the counterexample mentions values that the replay generator cannot construct (large slices, interior pointers, abstract strings/maps); not replayed\n")
		return false, log.String()
	}
	inputsCode := rc.code.String()
	rc.code.Reset()
	// call
	sig := fn.Signature
	call := fn.Name() + "(" + strings.Join(argNames, ", ") + ")"
	if sig.Recv() != nil {
		call = argNames[0] + "." + fn.Name() + "(" + strings.Join(argNames[1:], ", ") + ")"
	}
	var resNames []string
	for i := 0; i < sig.Results().Len(); i++ {
		resNames = append(resNames, fmt.Sprintf("r%d", i))
	}
	var callCode strings.Builder
	callCode.WriteString("\tpanicked := true\n\tfunc() {\n\t\tdefer func() {\n\t\t\tif r := recover(); r != nil {\n\t\t\t\tfmt.Printf(\"OUT panic %v\\n\", r)\n\t\t\t}\n\t\t}()\n")
	for i := 0; i < sig.Results().Len(); i++ {
		fmt.Fprintf(&callCode, "\t\t_ = r%d\n", i)
	}
	if len(resNames) > 0 {
		fmt.Fprintf(&callCode, "\t\t%s = %s\n", strings.Join(resNames, ", "), call)
	} else {
		fmt.Fprintf(&callCode, "\t\t%s\n", call)
	}
	callCode.WriteString("\t\tpanicked = false\n\t}()\n\tif panicked {\n\t\treturn\n\t}\n")
	var resDecl strings.Builder
	for i := 0; i < sig.Results().Len(); i++ {
		fmt.Fprintf(&resDecl, "\tvar r%d %s\n", i, rc.typeStr(sig.Results().At(i).Type()))
	}
	// outputs
	var outTerms []NamedTerm
	if eng.exit != nil {
		for i, v := range eng.exitVals {
			rc.outputs(fmt.Sprintf("result#%d", i), fmt.Sprintf("r%d", i), v, eng.exit, &outTerms, 0)
		}
		for i, p := range fn.Params {
			rc.postOutputs("post:"+p.Name(), argNames[i], eng.top.args[i], eng.exit, &outTerms)
		}
	}
	outCode := rc.code.String()
	// model's predicted outputs
	predicted := map[string]string{}
	if len(outTerms) > 0 {
		var ts []Term
		for _, nt := range outTerms {
			ts = append(ts, nt.T)
		}
		vals := rc.fetch(ts)
		for i, nt := range outTerms {
			predicted[nt.Name] = vals[i]
		}
	}
	// assemble the test
	var src strings.Builder
	fmt.Fprintf(&src, "package %s\n\nimport (\n\t\"fmt\"\n\t\"testing\"\n", rc.pkg.Name())
	var imps []string
	for p := range rc.imports {
		imps = append(imps, p)
	}
	sort.Strings(imps)
	for _, p := range imps {
		fmt.Fprintf(&src, "\t%s %q\n", rc.imports[p], p)
	}
	src.WriteString(")\n\n// generated by govc from the solver's counterexample for obligation " + o.Name + "\nfunc TestVerifReplay(t *testing.T) {\n")
	src.WriteString(inputsCode)
	src.WriteString(resDecl.String())
	src.WriteString(callCode.String())
	src.WriteString(outCode)
	src.WriteString("}\n")
	rel := strings.TrimPrefix(rc.pkg.Path(), strings.TrimSuffix(modPrefix, "/"))
	rel = strings.TrimPrefix(rel, "/")
	testFile := filepath.Join(dir, sanitizeFile(o.Name)+"_replay_test.go")
	os.WriteFile(testFile, []byte(src.String()), 0o644)
	ov := filepath.Join(dir, sanitizeFile(o.Name)+".overlay.json")
	ovJSON, _ := json.Marshal(map[string]map[string]string{"Replace": {filepath.Join(repoRoot, rel, "zz_verif_replay_test.go"): testFile}})
	os.WriteFile(ov, ovJSON, 0o644)
	ctx, cancel := context.WithTimeout(context.Background(), 120*time.Second)
	defer cancel()
	cmd := exec.CommandContext(ctx, "go", "test", "-overlay", ov, "-vet=off", "-v", "-count=1", "-timeout", "60s", "-run", "^TestVerifReplay$", "./"+rel)
	cmd.Dir = repoRoot
	cmd.Env = append(os.Environ(), "GOFLAGS=-mod=mod", "GOPROXY=off", "GOSUMDB=off", "GOTOOLCHAIN=local")
	var outb bytes.Buffer
	cmd.Stdout = &outb
	cmd.Stderr = &outb
	cmd.Run()
	text := outb.String()
	fmt.Fprintf(&log, "replay test: %s (run with: cd /repo && go test -overlay %s -vet=off -run '^TestVerifReplay$' ./%s)\n", testFile, ov, rel)
	real := map[string]string{}
	panicked := ""
	for _, l := range strings.Split(text, "\n") {
		if strings.HasPrefix(l, "OUT ") {
			parts := strings.SplitN(l[4:], " ", 2)
			if len(parts) == 2 {
				if parts[0] == "panic" {
					panicked = parts[1]
				} else {
					real[parts[0]] = parts[1]
				}
			}
		}
	}
	if !strings.Contains(text, "OUT ") && !strings.Contains(text, "ok") && !strings.Contains(text, "PASS") {
		fmt.Fprintf(&log, "replay: the generated test did not run:\n%s\n", firstLines(text, 12))
		return false, log.String()
	}
	if isSafetyKind(o.Kind) {
		if panicked != "" {
			fmt.Fprintf(&log, "replay: CONFIRMED on the real code: the call panics: %s\n", panicked)
			return true, log.String()
		}
		log.WriteString("replay: the real code did not panic on the solver's input\n")
		return false, log.String()
	}
	if panicked != "" {
		fmt.Fprintf(&log, "replay: the real code panics on the solver's input (%s); a contract function must not panic -> CONFIRMED as a failure of the real code\n", panicked)
		return true, log.String()
	}
	// compare real outputs with the model's prediction
	agree, total := 0, 0
	var diffs []string
	for name, pv := range predicted {
		rv, ok := real[name]
		if !ok {
			continue
		}
		total++
		if sameValue(pv, rv) {
			agree++
		} else {
			diffs = append(diffs, fmt.Sprintf("%s: model %s, real %s", name, pv, rv))
		}
	}
	sort.Strings(diffs)
	log.WriteString("real outputs on the solver's input:\n")
	var names []string
	for n := range real {
		names = append(names, n)
	}
	sort.Strings(names)
	for _, n := range names {
		fmt.Fprintf(&log, "  %s = %s\n", n, real[n])
	}
	if total > 0 && agree == total {
		fmt.Fprintf(&log, "replay: CONFIRMED: the real code produces exactly the %d output values of the solver's counterexample, for which the clause is false\n", total)
		return true, log.String()
	}
	if total == 0 {
		log.WriteString("replay: no comparable outputs (the function's observable results are not scalar); not confirmed\n")
	} else {
		fmt.Fprintf(&log, "replay: the real code disagrees with the model on %d of %d outputs (spurious counterexample or unmodelled aliasing):\n  %s\n", total-agree, total, strings.Join(diffs, "\n  "))
	}
	return false, log.String()
}

func sameValue(model, real string) bool {
	real = strings.TrimSpace(real)
	model = strings.TrimSpace(model)
	if model == "true" || model == "false" {
		return model == real
	}
	isReal := strings.Contains(model, ".") || strings.HasPrefix(model, "(/")
	if !isReal {
		n, ok := parseModelInt(model)
		if !ok {
			return false
		}
		r := new(big.Int)
		if _, ok2 := r.SetString(real, 10); !ok2 {
			return false
		}
		if n.Cmp(r) == 0 {
			return true
		}
		// bit-vector model values are unsigned: compare modulo 2^width
		width := uint(0)
		if strings.HasPrefix(model, "#x") {
			width = uint(len(model)-2) * 4
		} else if strings.HasPrefix(model, "#b") {
			width = uint(len(model) - 2)
		}
		if width > 0 {
			m := new(big.Int).Lsh(big.NewInt(1), width)
			a := new(big.Int).Mod(n, m)
			b := new(big.Int).Mod(r, m)
			return a.Cmp(b) == 0
		}
		return false
	}
	if f, ok := parseModelReal(model); ok {
		g, err := strconv.ParseFloat(real, 64)
		return err == nil && (f == g || (f-g < 1e-9 && g-f < 1e-9))
	}
	return false
}

var _ = ssa.NaiveForm
