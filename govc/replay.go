package main

import (
	"fmt"
	"os"
	"path/filepath"
	"strings"
)

// replayObligation tries to turn a failed obligation into a concrete failing input of the real code.
// Returns the replay file and whether the failure was confirmed by running the real code.
func (w *World) replayObligation(out *checkOutcome, o *Oblig, dir string) (string, bool) {
	path := filepath.Join(dir, sanitizeFile(o.Name)+".txt")
	var sb strings.Builder
	fmt.Fprintf(&sb, "obligation: %s\nkind: %s\nat: %s\nstatus: %s\n", o.Name, o.Kind, o.Pos, statusOf(o))
	if o.Res != nil {
		fmt.Fprintf(&sb, "solver: %s (%d ms)\nsolver output:\n%s\n", o.Res.Solver, o.Res.Ms, firstLines(o.Res.Output, 40))
	}
	confirmed := false
	if o.Res != nil && o.Res.Status == "sat" && !o.WantSat {
		var eng *Engine
		for _, r := range out.results {
			if r.Key == o.Fn {
				eng = r.Engine
			}
		}
		if eng != nil {
			model, raw := eng.getModel(o, o.Inputs, "", o.Res.Solver)
			if model != nil {
				sb.WriteString("counterexample (inputs of the function under contract, from the solver model):\n")
				for _, in := range o.Inputs {
					fmt.Fprintf(&sb, "  %s = %s\n", in.Name, model[in.Name])
				}
				ok, log := w.runReplay(eng, o, model, dir)
				sb.WriteString(log)
				confirmed = ok
			} else {
				sb.WriteString("model extraction failed:\n" + firstLines(raw, 10) + "\n")
			}
		}
	}
	if !confirmed {
		sb.WriteString("replay: no-failing-input-found (the obligation is reported because it is claimed as proved on the unchanged tree and is not discharged now)\n")
	}
	os.WriteFile(path, []byte(sb.String()), 0o644)
	return path, confirmed
}

// checkKnownFinding: the obligation must hold outside the recorded class, and the witness must still fail on the real code.
func (w *World) checkKnownFinding(out *checkOutcome, o *Oblig, kf KnownFinding, fullSec int) (bool, string) {
	return false, "known-finding support not built yet"
}

func (w *World) verifyLemmas(prop string) []*FuncResult { return nil }
func (w *World) verifyData(prop string) []*FuncResult   { return nil }

func (w *World) runReplay(eng *Engine, o *Oblig, model map[string]string, dir string) (bool, string) {
	return false, ""
}
