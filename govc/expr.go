package main

import (
	"fmt"
	"go/ast"
	"go/constant"
	"go/token"
	"go/types"
	"strconv"
	"strings"

	"golang.org/x/tools/go/ssa"
)

// ConstV is an untyped constant in a contract expression.
type ConstV struct{ V constant.Value }

func (c ConstV) GoType() types.Type {
	switch c.V.Kind() {
	case constant.Bool:
		return types.Typ[types.UntypedBool]
	case constant.Float:
		return types.Typ[types.UntypedFloat]
	case constant.String:
		return types.Typ[types.UntypedString]
	}
	return types.Typ[types.UntypedInt]
}

type Env struct {
	e      *Engine
	st     *State
	old    *State
	fr     *Frame
	pos    token.Pos
	bound  map[string]Val
	pkg    *types.Package
	pkgRel string
	qdepth int
	cl     *Clause
	rangeIdx *ssa.Alloc // the rangeindex cell of the loop whose invariant is being evaluated
}

type evalError struct{ msg string }

func (e *Env) fail(format string, args ...interface{}) {
	loc := ""
	if e.cl != nil {
		loc = fmt.Sprintf("%s:%d: ", strings.TrimPrefix(e.cl.File, "/repo/"), e.cl.Line)
	}
	panic(evalError{loc + fmt.Sprintf(format, args...)})
}

func (env *Env) with(name string, v Val) *Env {
	n := *env
	n.bound = make(map[string]Val, len(env.bound)+1)
	for k, x := range env.bound {
		n.bound[k] = x
	}
	n.bound[name] = v
	return &n
}

// envAt builds the evaluation environment of the top-level function at a program point.
func (e *Engine) envAt(fr *Frame, st *State, pos token.Pos) *Env {
	env := &Env{e: e, st: st, old: e.entry, fr: fr, pos: pos, bound: map[string]Val{}}
	if fr.fn.Pkg != nil {
		env.pkg = fr.fn.Pkg.Pkg
		env.pkgRel = strings.TrimPrefix(env.pkg.Path(), modPrefix)
	}
	return env
}

func (e *Engine) evalClause(env *Env, c Clause) Term {
	n := *env
	n.cl = &c
	return n.evalBool(c.Expr)
}

func (env *Env) evalBool(x ast.Expr) Term {
	v := env.eval(x)
	switch s := v.(type) {
	case Scalar:
		if s.T.Sort != SBool {
			env.fail("expected boolean expression, got sort %s", s.T.Sort)
		}
		return s.T
	case ConstV:
		if s.V.Kind() == constant.Bool {
			return BoolLit(constant.BoolVal(s.V))
		}
	}
	env.fail("expected boolean expression, got %T", v)
	return TTrue
}

// typed converts an untyped constant to type t.
func (env *Env) typed(v Val, t types.Type) Val {
	c, ok := v.(ConstV)
	if !ok {
		return v
	}
	e := env.e
	switch {
	case isBool(t):
		return Scalar{BoolLit(constant.BoolVal(c.V)), t}
	case isFloat(t):
		return Scalar{RealLit(constToRat(c.V)), t}
	case isInteger(t):
		if c.V.Kind() == constant.Float {
			iv := constant.ToInt(c.V)
			if iv.Kind() != constant.Int {
				env.fail("constant %s is not an integer", c.V)
			}
			return Scalar{e.ar.intLit(constToBig(iv), t), t}
		}
		return Scalar{e.ar.intLit(constToBig(c.V), t), t}
	case isString(t):
		return Scalar{e.strConst(constant.StringVal(c.V)), t}
	}
	if c.V.Kind() == constant.Int {
		if constToBig(c.V).Sign() == 0 {
			return e.zeroVal(t)
		}
	}
	env.fail("cannot use constant %s as %s", c.V, t)
	return nil
}

func (env *Env) defaultTyped(v Val) Val {
	c, ok := v.(ConstV)
	if !ok {
		return v
	}
	switch c.V.Kind() {
	case constant.Bool:
		return env.typed(v, types.Typ[types.Bool])
	case constant.Float:
		if constant.ToInt(c.V).Kind() == constant.Int {
			return env.typed(ConstV{constant.ToInt(c.V)}, types.Typ[types.Int])
		}
		return env.typed(v, types.Typ[types.Float64])
	case constant.String:
		return env.typed(v, types.Typ[types.String])
	}
	return env.typed(v, types.Typ[types.Int])
}

var qcounter int

func (env *Env) eval(x ast.Expr) Val {
	e := env.e
	switch n := x.(type) {
	case *ast.ParenExpr:
		return env.eval(n.X)
	case *ast.BasicLit:
		switch n.Kind {
		case token.INT, token.FLOAT, token.CHAR, token.STRING:
			return ConstV{constant.MakeFromLiteral(n.Value, n.Kind, 0)}
		}
	case *ast.Ident:
		return env.ident(n.Name)
	case *ast.SelectorExpr:
		return env.selector(n)
	case *ast.StarExpr:
		v := env.eval(n.X)
		p, ok := v.(PtrV)
		if !ok {
			env.fail("dereference of %T", v)
		}
		return env.pureLoad(p)
	case *ast.IndexExpr:
		base := env.eval(n.X)
		iv := env.typed(env.eval(n.Index), types.Typ[types.Int])
		switch b := base.(type) {
		case SliceV:
			i := e.toIdx(iv)
			el := b.Ty.Underlying().(*types.Slice).Elem()
			return env.pureLoad(PtrV{Ty: types.NewPointer(el), Rid: b.Rid, Idx: e.elemIdx(b.Off, i), Root: el, NonNil: true})
		case ArrayV:
			i := e.toIdx(iv)
			if b.E != nil {
				if c, ok := constVal(i); ok && c.IsInt64() && c.Int64() >= 0 && c.Int64() < int64(len(b.E)) {
					return b.E[c.Int64()]
				}
				env.fail("index of explicit array (only constant indices)")
			}
			return Scalar{Select(b.A, i), b.Ty.Underlying().(*types.Array).Elem()}
		case Scalar:
			if isString(b.Ty) {
				return Scalar{e.strAt(b.T, e.toIdx(iv)), types.Typ[types.Uint8]}
			}
			if mt, ok := b.Ty.Underlying().(*types.Map); ok {
				return env.mapRead(b, mt, env.typed(env.eval(n.Index), mt.Key()), false)
			}
		case PtrV:
			// pointer to array
			if at, ok := b.Ty.Underlying().(*types.Pointer).Elem().Underlying().(*types.Array); ok {
				i := e.toIdx(iv)
				if b.ArrBase {
					return env.pureLoad(PtrV{Ty: types.NewPointer(at.Elem()), Rid: b.Rid, Idx: e.elemIdx(b.Idx, i), Root: b.Root, NonNil: true})
				}
				np := b
				np.Ty = types.NewPointer(at.Elem())
				if b.Local != nil {
					np.CPath = append(append([]cstep{}, b.CPath...), cstep{idx: &i})
				} else {
					np.ArrIdx = []Term{i}
				}
				return env.pureLoad(np)
			}
		}
		env.fail("index of %T", base)
	case *ast.SliceExpr:
		base := env.eval(n.X)
		b, ok := base.(SliceV)
		if !ok {
			env.fail("slice expression on %T", base)
		}
		a := e.ar
		lo := a.idxLit(0)
		hi := b.Len
		if n.Low != nil {
			lo = e.toIdx(env.typed(env.eval(n.Low), types.Typ[types.Int]))
		}
		if n.High != nil {
			hi = e.toIdx(env.typed(env.eval(n.High), types.Typ[types.Int]))
		}
		return SliceV{Ty: b.Ty, Rid: b.Rid, Off: a.idxAdd(b.Off, lo), Len: a.idxSub(hi, lo), Cap: a.idxSub(b.Cap, lo)}
	case *ast.UnaryExpr:
		v := env.eval(n.X)
		if c, ok := v.(ConstV); ok {
			return ConstV{constant.UnaryOp(n.Op, c.V, 0)}
		}
		s, ok := v.(Scalar)
		if !ok {
			env.fail("unary %s on %T", n.Op, v)
		}
		switch n.Op {
		case token.NOT:
			return Scalar{Not(s.T), s.Ty}
		case token.SUB:
			if e.ar.mode == ModeInt && isInteger(s.Ty) {
				return Scalar{app(SInt, "-", s.T), s.Ty}
			}
			t, _ := e.ar.UnOp(token.SUB, s.T, s.Ty)
			return Scalar{t, s.Ty}
		case token.XOR:
			t, _ := e.ar.UnOp(token.XOR, s.T, s.Ty)
			return Scalar{t, s.Ty}
		case token.ADD:
			return s
		}
		env.fail("unary op %s", n.Op)
	case *ast.BinaryExpr:
		return env.binary(n)
	case *ast.CallExpr:
		return env.callExpr(n)
	}
	env.fail("unsupported expression %T", x)
	return nil
}

func (env *Env) binary(n *ast.BinaryExpr) Val {
	e := env.e
	boolT := types.Typ[types.Bool]
	if n.Op == token.LAND || n.Op == token.LOR {
		a, b := env.evalBool(n.X), env.evalBool(n.Y)
		if n.Op == token.LAND {
			return Scalar{And(a, b), boolT}
		}
		return Scalar{Or(a, b), boolT}
	}
	a, b := env.eval(n.X), env.eval(n.Y)
	ca, aConst := a.(ConstV)
	cb, bConst := b.(ConstV)
	if aConst && bConst {
		switch n.Op {
		case token.EQL, token.NEQ, token.LSS, token.LEQ, token.GTR, token.GEQ:
			return ConstV{constant.MakeBool(constant.Compare(ca.V, n.Op, cb.V))}
		case token.SHL, token.SHR:
			s, _ := constant.Uint64Val(cb.V)
			return ConstV{constant.Shift(ca.V, n.Op, uint(s))}
		case token.QUO:
			if ca.V.Kind() == constant.Int && cb.V.Kind() == constant.Int {
				return ConstV{constant.BinaryOp(ca.V, token.QUO_ASSIGN, cb.V)}
			}
		}
		return ConstV{constant.BinaryOp(ca.V, n.Op, cb.V)}
	}
	isShift := n.Op == token.SHL || n.Op == token.SHR
	if aConst {
		if isShift {
			a = env.defaultTyped(a)
		} else {
			a = env.typed(a, b.GoType())
		}
	}
	if bConst {
		if isShift {
			if e.ar.mode == ModeBV {
				b = env.typed(b, a.GoType())
			} else {
				b = env.typed(b, types.Typ[types.Uint])
			}
		} else {
			b = env.typed(b, a.GoType())
		}
	}
	as, aok := a.(Scalar)
	bs, bok := b.(Scalar)
	if aok && bok && isInteger(as.Ty) && isInteger(bs.Ty) && e.ar.mode == ModeInt && !isShift {
		// mathematical integers in contracts (int mode)
		var t Term
		switch n.Op {
		case token.ADD:
			t = app(SInt, "+", as.T, bs.T)
		case token.SUB:
			t = app(SInt, "-", as.T, bs.T)
		case token.MUL:
			t = app(SInt, "*", as.T, bs.T)
		}
		if t.S != "" {
			return Scalar{t, as.Ty}
		}
	}
	if aok && bok && e.ar.mode == ModeBV && isInteger(as.Ty) && isInteger(bs.Ty) && !isShift {
		if as.T.Sort != bs.T.Sort {
			env.fail("operands of %s have different widths (%s vs %s); convert explicitly", n.Op, as.Ty, bs.Ty)
		}
	}
	var rt types.Type = boolT
	switch n.Op {
	case token.ADD, token.SUB, token.MUL, token.QUO, token.REM, token.AND, token.OR, token.XOR, token.SHL, token.SHR, token.AND_NOT:
		rt = a.GoType()
	}
	return e.binopVals(env.st, n.Op, a, b, rt, token.NoPos, false)
}

func (env *Env) ident(name string) Val {
	e := env.e
	if v, ok := env.bound[name]; ok {
		return v
	}
	switch name {
	case "true":
		return ConstV{constant.MakeBool(true)}
	case "false":
		return ConstV{constant.MakeBool(false)}
	case "nil":
		return Scalar{e.ridLit(0), types.Typ[types.UntypedNil]}
	}
	if env.fr != nil {
		fn := env.fr.fn
		// entry values
		if strings.HasSuffix(name, "0") {
			base := name[:len(name)-1]
			for i, p := range fn.Params {
				if p.Name() == base {
					return env.fr.args[i]
				}
			}
		}
		if name == "rangeindex" && env.rangeIdx != nil {
			if c := env.st.cells[env.rangeIdx]; c != nil {
				return c.V
			}
		}
		// rangeindexN: the hidden index of range loop number N (an enclosing loop, from inside a nested one)
		if strings.HasPrefix(name, "rangeindex") && len(name) > len("rangeindex") {
			var n int
			if _, err := fmt.Sscanf(name[len("rangeindex"):], "%d", &n); err == nil {
				for _, l := range env.fr.loops {
					if l.ord == n {
						if a := loopRangeIndex(l); a != nil {
							if c := env.st.cells[a]; c != nil {
								return c.V
							}
						}
					}
				}
				env.fail("%s: loop %d is not a range loop that is live here", name, n)
			}
		}
		if a := env.fr.cellByName(e, name, env.pos); a != nil {
			if c := env.st.cells[a]; c != nil {
				return c.V
			}
			// an escaping local lives in its own heap region: read it through its address
			if pv, ok := env.fr.regs[a].(PtrV); ok && pv.Local == nil {
				return env.pureLoad(pv)
			}
			isParam := false
			for _, p := range fn.Params {
				if p.Name() == name {
					isParam = true
				}
			}
			if !isParam {
				var live []string
				for al := range env.st.cells {
					live = append(live, fmt.Sprintf("%s@%p", al.Comment, al))
				}
				env.fail("variable %s (%p) is not live here; live: %v", name, a, live)
			}
		}
		for i, p := range fn.Params {
			if p.Name() == name {
				return env.fr.args[i]
			}
		}
		// captured variable of a function literal: read through the capturing pointer
		for _, fv := range fn.FreeVars {
			if fv.Name() == name {
				if pv, ok := env.fr.regs[fv].(PtrV); ok {
					return env.pureLoad(pv)
				}
			}
		}
	}
	if env.pkg != nil {
		if o := env.pkg.Scope().Lookup(name); o != nil {
			return env.object(o)
		}
	}
	env.fail("unknown identifier %s", name)
	return nil
}

func (env *Env) object(o types.Object) Val {
	e := env.e
	switch ob := o.(type) {
	case *types.Const:
		if b, ok := ob.Type().Underlying().(*types.Basic); ok && b.Info()&types.IsUntyped != 0 {
			return ConstV{ob.Val()}
		}
		return env.typed(ConstV{ob.Val()}, ob.Type())
	case *types.Var:
		sp := e.w.prog.Package(ob.Pkg())
		if sp == nil {
			env.fail("no ssa package for %s", ob.Pkg().Path())
		}
		g, ok := sp.Members[ob.Name()].(*ssa.Global)
		if !ok {
			env.fail("%s is not a global", ob.Name())
		}
		gp := e.globalPtr(g).(PtrV)
		if gp.ArrBase {
			return gp // arrays are indexed in place
		}
		return env.pureLoad(gp)
	}
	env.fail("cannot use %s here", o.Name())
	return nil
}

// cellByName finds the alloc cell of a source variable visible at pos.
func (fr *Frame) cellByName(e *Engine, name string, pos token.Pos) *ssa.Alloc {
	var cands []*ssa.Alloc
	for _, b := range fr.fn.Blocks {
		for _, in := range b.Instrs {
			if a, ok := in.(*ssa.Alloc); ok && a.Comment == name {
				cands = append(cands, a)
			}
		}
	}
	for _, a := range fr.fn.Locals {
		if a.Comment == name {
			dup := false
			for _, c := range cands {
				if c == a {
					dup = true
				}
			}
			if !dup {
				cands = append(cands, a)
			}
		}
	}
	if len(cands) == 0 {
		return nil
	}
	if len(cands) == 1 {
		return cands[0]
	}
	// disambiguate through the type checker's scopes
	if fr.fn.Pkg != nil && pos.IsValid() {
		sc := fr.fn.Pkg.Pkg.Scope().Innermost(pos)
		if sc != nil {
			if _, obj := sc.LookupParent(name, pos); obj != nil {
				for _, c := range cands {
					if c.Pos() == obj.Pos() {
						return c
					}
				}
			}
		}
	}
	// rangeindex of the current loop: the one whose header is nearest before pos
	var best *ssa.Alloc
	for _, c := range cands {
		if c.Pos() <= pos && (best == nil || c.Pos() > best.Pos()) {
			best = c
		}
	}
	if best != nil {
		return best
	}
	return cands[0]
}

func (env *Env) selector(n *ast.SelectorExpr) Val {
	e := env.e
	if id, ok := n.X.(*ast.Ident); ok && env.pkg != nil {
		if _, isBound := env.bound[id.Name]; !isBound {
			isLocal := env.fr != nil && (env.fr.cellByName(e, id.Name, env.pos) != nil)
			if !isLocal && env.pkg.Scope().Lookup(id.Name) == nil {
				if ip := findImport(env.pkg, id.Name); ip != nil {
					o := ip.Scope().Lookup(n.Sel.Name)
					if o == nil {
						env.fail("unknown %s.%s", id.Name, n.Sel.Name)
					}
					return env.object(o)
				}
			}
		}
	}
	v := env.eval(n.X)
	return env.fieldOf(v, n.Sel.Name)
}

func (env *Env) fieldOf(v Val, name string) Val {
	switch x := v.(type) {
	case StructV:
		st := x.Ty.Underlying().(*types.Struct)
		for i := 0; i < st.NumFields(); i++ {
			if st.Field(i).Name() == name {
				return x.F[i]
			}
		}
		// promoted through embedded fields
		for i := 0; i < st.NumFields(); i++ {
			if st.Field(i).Embedded() {
				if _, ok := st.Field(i).Type().Underlying().(*types.Struct); ok {
					if r := env.tryField(x.F[i], name); r != nil {
						return r
					}
				}
			}
		}
		env.fail("no field %s in %s", name, x.Ty)
	case PtrV:
		et := x.Ty.Underlying().(*types.Pointer).Elem()
		st, ok := et.Underlying().(*types.Struct)
		if !ok {
			env.fail("field %s of pointer to %s", name, et)
		}
		for i := 0; i < st.NumFields(); i++ {
			if st.Field(i).Name() == name {
				np := x
				np.Ty = types.NewPointer(st.Field(i).Type())
				if x.Local != nil {
					np.CPath = append(append([]cstep{}, x.CPath...), cstep{field: i})
				} else {
					np.Path = append(append([]int{}, x.Path...), i)
				}
				return env.pureLoad(np)
			}
		}
		env.fail("no field %s in %s", name, et)
	}
	env.fail("selector .%s on %T", name, v)
	return nil
}

func (env *Env) tryField(v Val, name string) (res Val) {
	defer func() {
		if r := recover(); r != nil {
			if _, ok := r.(evalError); ok {
				res = nil
				return
			}
			panic(r)
		}
	}()
	return env.fieldOf(v, name)
}

// pureLoad reads memory in env.st without obligations.
func (env *Env) pureLoad(p PtrV) Val {
	e := env.e
	e.quiet++
	defer func() { e.quiet-- }()
	if env.qdepth > 0 {
		// no assumptions about terms with bound variables
		na := len(e.assumps)
		v := e.load(env.st, p, token.NoPos)
		e.assumps = e.assumps[:na]
		return v
	}
	return e.load(env.st, p, token.NoPos)
}

func (env *Env) mapRead(m Scalar, mt *types.Map, key Val, wantHas bool) Val {
	e := env.e
	ks, ok := e.mapSorts(mt)
	if !ok {
		env.fail("map with composite key in contract")
	}
	if av, ok := key.(ArrayV); ok && av.E != nil {
		if et, ok := pairKeyElem(mt.Key()); ok {
			te := make([]Val, len(av.E))
			for i, x := range av.E {
				te[i] = env.typed(x, et)
			}
			key = ArrayV{Ty: mt.Key(), E: te}
		}
	}
	kt := e.mapKeyTerm(mt, key)
	hk, vk := mapKeys(mt)
	hm := e.heapGetRaw(env.st, hk, SArr(e.rs(), SArr(ks, SBool)))
	has := And(Not(Eq(m.T, e.ridLit(0))), Select(Select(hm, m.T), kt))
	if wantHas {
		return Scalar{has, types.Typ[types.Bool]}
	}
	zt := e.flatten(e.zeroVal(mt.Elem()))
	idx := 0
	return e.build(mt.Elem(), func(sl Slot) Term {
		key := vk + "." + sl.Path
		vm := e.heapGetRaw(env.st, key, SArr(e.rs(), SArr(ks, sl.Sort)))
		t := Ite(has, Select(Select(vm, m.T), kt), zt[idx])
		idx++
		return t
	})
}

func (env *Env) callExpr(n *ast.CallExpr) Val {
	e := env.e
	boolT := types.Typ[types.Bool]
	intT := types.Typ[types.Int]
	if id, ok := n.Fun.(*ast.Ident); ok {
		switch id.Name {
		case "len", "cap":
			v := env.eval(n.Args[0])
			switch x := v.(type) {
			case SliceV:
				if id.Name == "len" {
					return Scalar{x.Len, intT}
				}
				return Scalar{x.Cap, intT}
			case Scalar:
				if isString(x.Ty) {
					return Scalar{e.strlen(x.T), intT}
				}
				if _, isMap := x.Ty.Underlying().(*types.Map); isMap {
					n := Select(e.mapLenGet(env.st, x.Ty), x.T)
					return Scalar{Ite(Eq(x.T, e.ridLit(0)), e.ar.idxLit(0), n), intT}
				}
			case ArrayV:
				return Scalar{e.ar.idxLit(x.Ty.Underlying().(*types.Array).Len()), intT}
			case PtrV:
				if x.ArrBase {
					return Scalar{e.ar.idxLit(x.ArrLen), intT}
				}
			case ConstV:
				if x.V.Kind() == constant.String {
					return ConstV{constant.MakeInt64(int64(len(constant.StringVal(x.V))))}
				}
			}
			env.fail("len of %T", v)
		case "forall", "exists":
			if len(n.Args) != 4 {
				env.fail("%s(i, lo, hi, body) expects 4 arguments", id.Name)
			}
			vn, ok := n.Args[0].(*ast.Ident)
			if !ok {
				env.fail("quantified variable must be an identifier")
			}
			lo := e.toIdx(env.typed(env.eval(n.Args[1]), intT))
			hi := e.toIdx(env.typed(env.eval(n.Args[2]), intT))
			qcounter++
			qv := Term{fmt.Sprintf("%s!q%d", vn.Name, qcounter), e.ar.idxSort()}
			sub := env.with(vn.Name, Scalar{qv, intT})
			sub.qdepth++
			body := sub.evalBool(n.Args[3])
			rng := And(e.ar.idxLe(lo, qv), e.ar.idxLt(qv, hi))
			if nb, nv, B := rebaseQuantifier(body.S, qv.S, e.ar.mode == ModeBV); B != "" {
				bt := Term{B, e.ar.idxSort()}
				body = Term{nb, SBool}
				qv = Term{nv, e.ar.idxSort()}
				rng = And(e.ar.idxLe(e.ar.idxAdd(bt, lo), qv), e.ar.idxLt(qv, e.ar.idxAdd(bt, hi)))
			}
			var trig [][]Term
			for _, t := range inferTriggers(body.S, qv.S) {
				trig = append(trig, []Term{{S: t}})
			}
			if id.Name == "forall" {
				return Scalar{Forall([]Term{qv}, Implies(rng, body), trig...), boolT}
			}
			return Scalar{ExistsT([]Term{qv}, And(rng, body), trig...), boolT}
		case "forallT":
			// forallT(i, lo, hi, trigger, body): forall with an explicit single-term pattern
			if len(n.Args) != 5 {
				env.fail("forallT(i, lo, hi, trigger, body) expects 5 arguments")
			}
			vn, ok := n.Args[0].(*ast.Ident)
			if !ok {
				env.fail("quantified variable must be an identifier")
			}
			lo := e.toIdx(env.typed(env.eval(n.Args[1]), intT))
			hi := e.toIdx(env.typed(env.eval(n.Args[2]), intT))
			qcounter++
			qv := Term{fmt.Sprintf("%s!q%d", vn.Name, qcounter), e.ar.idxSort()}
			sub := env.with(vn.Name, Scalar{qv, intT})
			sub.qdepth++
			trig := sub.eval(n.Args[3])
			body := sub.evalBool(n.Args[4])
			rng := And(e.ar.idxLe(lo, qv), e.ar.idxLt(qv, hi))
			return Scalar{Forall([]Term{qv}, Implies(rng, body), dynTerms(trig)), boolT}
		case "forallV":
			// forallV(v, like, trigger, body): v ranges over every value of the (scalar) type of `like`
			if len(n.Args) != 4 {
				env.fail("forallV(v, like, trigger, body) expects 4 arguments")
			}
			vn, ok := n.Args[0].(*ast.Ident)
			if !ok {
				env.fail("quantified variable must be an identifier")
			}
			like, ok := env.eval(n.Args[1]).(Scalar)
			if !ok || like.Ty == nil {
				env.fail("forallV: `like` must be a typed scalar expression")
			}
			qcounter++
			qv := Term{fmt.Sprintf("%s!q%d", vn.Name, qcounter), like.T.Sort}
			qval := Scalar{qv, like.Ty}
			sub := env.with(vn.Name, qval)
			sub.qdepth++
			trig := sub.eval(n.Args[2])
			body := sub.evalBool(n.Args[3])
			// no range guard on v: in int mode the elements of a heap array are not known to lie in their type's
			// range under a quantifier, and a guard would block exactly those instances; quantifying over more
			// values only strengthens the clause
			return Scalar{Forall([]Term{qv}, body, dynTerms(trig)), boolT}
		case "mark":
			// mark(x): always true; exists only to give quantifier instantiation a syntactic anchor
			x := e.toIdx(env.typed(env.eval(n.Args[0]), intT))
			return Scalar{app(SBool, "mark", x), boolT}
		case "pow2":
			// pow2(k): 2^k as a mathematical integer (int mode only; axiomatised in the prelude)
			if e.ar.mode != ModeInt {
				env.fail("pow2() is only available in int mode")
			}
			x := env.typed(env.eval(n.Args[0]), intT).(Scalar)
			return Scalar{app(SInt, "pow2", x.T), intT}
		case "implies":
			return Scalar{Implies(env.evalBool(n.Args[0]), env.evalBool(n.Args[1])), boolT}
		case "iff":
			return Scalar{Eq(env.evalBool(n.Args[0]), env.evalBool(n.Args[1])), boolT}
		case "old":
			if env.old == nil {
				env.fail("old() not available here")
			}
			sub := *env
			// old() switches the heap to the entry heap; local variables keep their current values
			hyb := env.old.clone()
			hyb.cells = env.st.cells
			hyb.guard = env.st.guard
			sub.st = hyb
			// inside old(), parameter names denote entry values
			if env.fr != nil {
				sub.bound = make(map[string]Val)
				for k, v := range env.bound {
					sub.bound[k] = v
				}
				for i, p := range env.fr.fn.Params {
					if _, shadow := sub.bound[p.Name()]; !shadow && i < len(env.fr.args) {
						sub.bound[p.Name()] = env.fr.args[i]
					}
				}
			}
			return sub.eval(n.Args[0])
		case "ite":
			c := env.evalBool(n.Args[0])
			a, b := env.eval(n.Args[1]), env.eval(n.Args[2])
			if _, ok := a.(ConstV); ok {
				if _, ok2 := b.(ConstV); ok2 {
					a = env.defaultTyped(a)
				} else {
					a = env.typed(a, b.GoType())
				}
			}
			b = env.typed(b, a.GoType())
			if as, ok := a.(Scalar); ok {
				if bs, ok := b.(Scalar); ok {
					return Scalar{Ite(c, as.T, bs.T), as.Ty}
				}
			}
			a, b = adoptNilShape(a, b)
			if staticShape(a) != staticShape(b) {
				env.fail("ite branches have different shapes")
			}
			return mapVal2(a, b, func(x, y Term) Term { return Ite(c, x, y) })
		case "min", "max":
			a, b := env.eval(n.Args[0]), env.eval(n.Args[1])
			if _, ok := a.(ConstV); ok {
				a = env.typed(a, b.GoType())
			}
			b = env.typed(b, a.GoType())
			as, bs := a.(Scalar), b.(Scalar)
			op := token.LSS
			if id.Name == "max" {
				op = token.GTR
			}
			c, _ := e.ar.BinOp(op, as.T, bs.T, as.Ty, bs.Ty)
			return Scalar{Ite(c, as.T, bs.T), as.Ty}
		case "pair":
			// pair(a, b): the value [2]T{a, b}, usable as a map key
			return ArrayV{E: []Val{env.eval(n.Args[0]), env.eval(n.Args[1])}}
		case "has":
			// has(m, k): key present in map
			m := env.eval(n.Args[0]).(Scalar)
			mt := m.Ty.Underlying().(*types.Map)
			return env.mapRead(m, mt, env.typed(env.eval(n.Args[1]), mt.Key()), true)
		case "ret0", "ret1", "ret2", "ret3":
			// component of a multi-result call
			v := env.eval(n.Args[0])
			tv, ok := v.(TupleV)
			k := int(id.Name[3] - '0')
			if !ok || k >= len(tv.Vs) {
				env.fail("%s of a value that is not a %d-tuple", id.Name, k+1)
			}
			return tv.Vs[k]
		case "sameslice":
			a, b := env.eval(n.Args[0]).(SliceV), env.eval(n.Args[1]).(SliceV)
			return Scalar{And(Eq(a.Rid, b.Rid), Eq(a.Off, b.Off), Eq(a.Len, b.Len), Eq(a.Cap, b.Cap)), boolT}
		case "rid":
			regT := types.Typ[types.UnsafePointer]
			switch v := env.eval(n.Args[0]).(type) {
			case SliceV:
				return Scalar{v.Rid, regT}
			case PtrV:
				return Scalar{v.Rid, regT}
			}
			env.fail("rid() of non-reference")
		case "ridof":
			// ridof(x): the region holding the escaping local variable x itself (its address, not its value)
			if id2, ok := n.Args[0].(*ast.Ident); ok && env.fr != nil {
				if a := env.fr.cellByName(e, id2.Name, env.pos); a != nil {
					if pv, ok := env.fr.regs[a].(PtrV); ok && pv.Local == nil {
						return Scalar{pv.Rid, types.Typ[types.UnsafePointer]}
					}
				}
			}
			env.fail("ridof(x): x must be a local variable whose address is taken")
		case "off":
			switch v := env.eval(n.Args[0]).(type) {
			case SliceV:
				return Scalar{v.Off, intT}
			case PtrV:
				return Scalar{v.Idx, intT}
			}
			env.fail("off() of non-reference")
		case "fresh":
			// fresh(x): region of x was allocated during this call
			if env.old == nil {
				env.fail("fresh() outside a function contract")
			}
			switch v := env.eval(n.Args[0]).(type) {
			case SliceV:
				return Scalar{e.ridLe(env.old.alloc, v.Rid), boolT}
			case PtrV:
				return Scalar{e.ridLe(env.old.alloc, v.Rid), boolT}
			case Scalar:
				if _, isMap := v.Ty.Underlying().(*types.Map); isMap {
					return Scalar{e.ridLe(env.old.alloc, v.T), boolT}
				}
			}
			env.fail("fresh() of non-reference")
		}
		// spec function?
		if sp := env.findSpec(id.Name); sp != nil {
			return env.callSpec(sp, n.Args)
		}
		// type conversion?
		if t := env.lookupType(n.Fun); t != nil {
			return env.conversion(t, n.Args[0])
		}
		// package function
		if env.pkg != nil {
			if o, ok := env.pkg.Scope().Lookup(id.Name).(*types.Func); ok {
				return env.callGo(e.w.prog.FuncValue(o), nil, n.Args)
			}
		}
		env.fail("unknown function %s", id.Name)
	}
	if sel, ok := n.Fun.(*ast.SelectorExpr); ok {
		// qualified: import.Func / import.Type
		if id, ok := sel.X.(*ast.Ident); ok && env.pkg != nil {
			_, isBound := env.bound[id.Name]
			isLocal := env.fr != nil && env.fr.cellByName(e, id.Name, env.pos) != nil
			if !isBound && !isLocal && env.pkg.Scope().Lookup(id.Name) == nil {
				if ip := findImport(env.pkg, id.Name); ip != nil {
					switch o := ip.Scope().Lookup(sel.Sel.Name).(type) {
					case *types.TypeName:
						return env.conversion(o.Type(), n.Args[0])
					case *types.Func:
						return env.callGo(e.w.prog.FuncValue(o), nil, n.Args)
					}
					// spec function of another package
					if sp := e.w.specs[strings.TrimPrefix(ip.Path(), modPrefix)+"."+sel.Sel.Name]; sp != nil {
						return env.callSpec(sp, n.Args)
					}
					env.fail("unknown %s.%s", id.Name, sel.Sel.Name)
				}
			}
		}
		// method call
		recv := env.eval(sel.X)
		rt := recv.GoType()
		obj, _, _ := types.LookupFieldOrMethod(rt, true, env.pkg, sel.Sel.Name)
		if f, ok := obj.(*types.Func); ok {
			fn := e.w.prog.FuncValue(f)
			if fn == nil {
				env.fail("no ssa function for method %s", sel.Sel.Name)
			}
			return env.callGo(fn, recv, n.Args)
		}
		env.fail("unknown method %s on %s", sel.Sel.Name, rt)
	}
	if t := env.lookupType(n.Fun); t != nil {
		return env.conversion(t, n.Args[0])
	}
	env.fail("unsupported call %T", n.Fun)
	return nil
}

func (env *Env) lookupType(x ast.Expr) types.Type {
	if env.pkg == nil {
		return nil
	}
	t, err := resolveType(x, env.pkg)
	if err != nil {
		return nil
	}
	return t
}

func (env *Env) conversion(t types.Type, arg ast.Expr) Val {
	e := env.e
	v := env.eval(arg)
	if c, ok := v.(ConstV); ok {
		return env.typed(c, t)
	}
	e.quiet++
	defer func() { e.quiet-- }()
	return e.convert(nil, env.st, v, t, token.NoPos)
}

func (env *Env) findSpec(name string) *SpecFn {
	w := env.e.w
	if sp := w.specs[env.pkgRel+"."+name]; sp != nil {
		return sp
	}
	var found *SpecFn
	for k, sp := range w.specs {
		if strings.HasSuffix(k, "."+name) {
			if found != nil {
				return nil
			}
			found = sp
		}
	}
	return found
}

// callGo evaluates a call to real Go code inside a contract expression by pure inlining.
func (env *Env) callGo(fn *ssa.Function, recv Val, args []ast.Expr) Val {
	e := env.e
	if fn == nil {
		env.fail("function has no ssa body")
	}
	var vals []Val
	sig := fn.Signature
	if recv != nil {
		// adapt receiver pointer-ness
		_, wantPtr := sig.Recv().Type().(*types.Pointer)
		_, havePtr := recv.(PtrV)
		if wantPtr && !havePtr {
			env.fail("method %s needs an addressable receiver", fn.Name())
		}
		if !wantPtr && havePtr {
			recv = env.pureLoad(recv.(PtrV))
		}
		vals = append(vals, recv)
	}
	for i, a := range args {
		v := env.eval(a)
		pi := i
		if pi >= sig.Params().Len() {
			env.fail("too many arguments to %s", fn.Name())
		}
		v = env.typed(v, sig.Params().At(pi).Type())
		vals = append(vals, v)
	}
	key := funcKey(fn)
	if ct := e.w.contracts[key]; ct != nil && (ct.Pure || ct.Trusted) && fn.Blocks == nil {
		return env.specFromContract(fn, ct, key, vals)
	}
	if !e.canInlineExpr(fn) {
		if ct := e.w.contracts[key]; ct != nil && ct.Pure {
			return env.specFromContract(fn, ct, key, vals)
		}
		env.fail("cannot inline %s in a contract expression (loops or too large); give it a pure contract", key)
	}
	e.quiet++
	savedIte := e.iteMerge
	e.iteMerge = true
	defer func() { e.quiet--; e.iteMerge = savedIte }()
	st := env.st.clone()
	st.guard = TTrue
	var rt types.Type = sig.Results()
	if sig.Results().Len() == 1 {
		rt = sig.Results().At(0).Type()
	}
	na := len(e.assumps)
	fake := &Frame{regs: map[ssa.Value]Val{}, fn: e.fn, ifaceOf: map[ssa.Value]Val{}}
	res, _ := e.inline(fake, st, fn, vals, rt, token.NoPos)
	if env.qdepth > 0 {
		e.assumps = e.assumps[:na]
	}
	if res == nil {
		env.fail("%s returns nothing", key)
	}
	return res
}

func (e *Engine) canInlineExpr(fn *ssa.Function) bool {
	if fn.Blocks == nil {
		return false
	}
	for _, b := range fn.Blocks {
		for _, s := range b.Succs {
			if s.Dominates(b) {
				return false
			}
		}
	}
	return true
}

// specFromContract: a pure function with a contract, used inside expressions: uninterpreted result + its ensures.
func (env *Env) specFromContract(fn *ssa.Function, ct *Contract, key string, vals []Val) Val {
	e := env.e
	sig := fn.Signature
	if sig.Results().Len() != 1 {
		env.fail("pure function %s must have one result", key)
	}
	rt := sig.Results().At(0).Type()
	rs := e.ar.scalarSortOrEmpty(rt)
	if rs == "" {
		env.fail("pure function %s must return a scalar", key)
	}
	var argTerms []Term
	var sorts []Sort
	for _, v := range vals {
		for _, t := range dynTerms(v) {
			argTerms = append(argTerms, t)
			sorts = append(sorts, t.Sort)
		}
	}
	f := e.declareFun("pure:"+key, sorts, rs)
	res := Scalar{app(rs, f, argTerms...), rt}
	if len(argTerms) == 0 {
		res = Scalar{Term{f, rs}, rt}
	}
	// assume its postconditions for this application (only outside quantifiers)
	if env.qdepth == 0 {
		cenv := e.calleeEnv(env.st, env.st, ct, fn, vals)
		cenv.bound["result"] = res
		for _, c := range ct.Ensures {
			e.assume(e.evalClause(cenv, c))
		}
	}
	return res
}

// ---------------------------------------------------------------- spec functions

type specRegion struct {
	key   string
	sort  Sort // inner array sort
	param int
}

type specInst struct {
	fname   string
	keys    []string // heap maps passed whole (in order)
	ksorts  []Sort
	regions []specRegion // region arrays (select M rid) passed instead of the whole map
	psorts  []Sort
	ret     Sort
	retTy   types.Type
	ptypes  []types.Type
	defined bool
}

// specIsRecursive: does the body mention a spec function that can reach sp again?
func (w *World) specIsRecursive(sp *SpecFn) bool {
	if sp.Opaque {
		return true
	}
	seen := map[*SpecFn]bool{}
	var reach func(cur *SpecFn) bool
	reach = func(cur *SpecFn) bool {
		if cur.Body == nil {
			return false
		}
		found := false
		ast.Inspect(cur.Body, func(n ast.Node) bool {
			ce, ok := n.(*ast.CallExpr)
			if !ok {
				return true
			}
			id, ok := ce.Fun.(*ast.Ident)
			if !ok {
				return true
			}
			callee := w.specs[cur.PkgRel+"."+id.Name]
			if callee == nil {
				return true
			}
			if callee == sp {
				found = true
				return false
			}
			if !seen[callee] {
				seen[callee] = true
				if reach(callee) {
					found = true
				}
			}
			return true
		})
		return found
	}
	return reach(sp)
}

// inlineSpec evaluates a non-recursive spec function as a macro in the caller's state.
func (env *Env) inlineSpec(sp *SpecFn, args []ast.Expr) Val {
	var pkg *types.Package
	for path, p := range env.e.w.pkgs {
		if strings.TrimPrefix(path, modPrefix) == sp.PkgRel {
			pkg = p.Types
		}
	}
	if pkg == nil {
		env.fail("no package for spec %s", sp.Name)
	}
	sub := &Env{e: env.e, st: env.st, old: env.old, bound: map[string]Val{}, pkg: pkg, pkgRel: sp.PkgRel, qdepth: env.qdepth}
	cl := Clause{File: sp.File, Line: sp.Line}
	sub.cl = &cl
	i := 0
	for _, f := range sp.Params {
		t, err := resolveType(f.Type, pkg)
		if err != nil {
			env.fail("spec %s: %v", sp.Name, err)
		}
		for _, nm := range f.Names {
			if i >= len(args) {
				env.fail("spec %s: too few arguments", sp.Name)
			}
			sub.bound[nm.Name] = env.typed(env.eval(args[i]), t)
			i++
		}
	}
	if i != len(args) {
		env.fail("spec %s: wrong number of arguments", sp.Name)
	}
	rt, err := resolveType(sp.Result, pkg)
	if err != nil {
		env.fail("spec %s: %v", sp.Name, err)
	}
	return sub.typed(sub.eval(sp.Body), rt)
}

func (env *Env) callSpec(sp *SpecFn, args []ast.Expr) Val {
	e := env.e
	if !e.w.specIsRecursive(sp) {
		return env.inlineSpec(sp, args)
	}
	inst := e.specInstance(sp)
	var vals []Val
	pi := 0
	for _, a := range args {
		if pi >= len(inst.ptypes) {
			env.fail("too many arguments to spec %s", sp.Name)
		}
		v := env.typed(env.eval(a), inst.ptypes[pi])
		vals = append(vals, v)
		pi++
	}
	if pi != len(inst.ptypes) {
		env.fail("spec %s expects %d arguments", sp.Name, len(inst.ptypes))
	}
	return e.applySpec(inst, env.st, vals)
}

func ridOf(v Val) (Term, bool) {
	switch x := v.(type) {
	case SliceV:
		return x.Rid, true
	case PtrV:
		if x.Local == nil {
			return x.Rid, true
		}
	}
	return Term{}, false
}

func (e *Engine) applySpec(inst *specInst, st *State, vals []Val) Val {
	var ts []Term
	for i, k := range inst.keys {
		ts = append(ts, e.heapGetRaw(st, k, inst.ksorts[i]))
	}
	for _, r := range inst.regions {
		rid, _ := ridOf(vals[r.param])
		ts = append(ts, Select(e.heapGetRaw(st, r.key, SArr(e.rs(), r.sort)), rid))
	}
	for _, v := range vals {
		ts = append(ts, dynTerms(v)...)
	}
	if len(ts) == 0 {
		return Scalar{Term{inst.fname, inst.ret}, inst.retTy}
	}
	return Scalar{app(inst.ret, inst.fname, ts...), inst.retTy}
}

// specInstance declares the spec function (with its heap dependencies) and emits its defining axiom.
// Heap reads of the form M[p.rid][..] through a parameter p are abstracted to a region-array argument
// (select M p.rid), so that allocation of, and writes to, other regions leave applications syntactically equal.
func (e *Engine) specInstance(sp *SpecFn) *specInst {
	id := sp.PkgRel + "." + sp.Name
	if inst, ok := e.specDone[id]; ok {
		return inst
	}
	var pkg *types.Package
	for path, p := range e.w.pkgs {
		if strings.TrimPrefix(path, modPrefix) == sp.PkgRel {
			pkg = p.Types
		}
	}
	if pkg == nil {
		panic(evalError{"no package for spec " + id})
	}
	inst := &specInst{fname: smtName("spec:" + id)}
	var pnames []string
	for _, f := range sp.Params {
		t, err := resolveType(f.Type, pkg)
		if err != nil {
			panic(evalError{fmt.Sprintf("%s:%d: spec %s: %v", sp.File, sp.Line, sp.Name, err)})
		}
		for _, nm := range f.Names {
			pnames = append(pnames, nm.Name)
			inst.ptypes = append(inst.ptypes, t)
		}
	}
	rt, err := resolveType(sp.Result, pkg)
	if err != nil {
		panic(evalError{fmt.Sprintf("%s:%d: spec %s result: %v", sp.File, sp.Line, sp.Name, err)})
	}
	inst.retTy = rt
	inst.ret = e.ar.scalarSortOrEmpty(rt)
	if inst.ret == "" {
		panic(evalError{"spec " + id + " must return a scalar"})
	}
	e.specDone[id] = inst
	mkParams := func() ([]Val, []Term) {
		var vals []Val
		var all []Term
		for i, t := range inst.ptypes {
			pn := pnames[i]
			v := e.build(t, func(s Slot) Term {
				n := pn
				if s.Path != "" {
					n += "." + s.Path
				}
				return Term{smtName("p!" + n), s.Sort}
			})
			vals = append(vals, v)
			all = append(all, dynTerms(v)...)
		}
		return vals, all
	}
	if sp.Opaque {
		_, all := mkParams()
		var sorts []Sort
		// an uninterpreted function of a slice depends on the contents of the slice's region too
		for pi, t := range inst.ptypes {
			if sl, ok := t.Underlying().(*types.Slice); ok {
				for _, slot := range e.slots(sl.Elem()) {
					k := heapKey(sl.Elem(), slot.Path)
					rs := SArr(e.ar.idxSort(), slot.Sort)
					keySorts[k+"|"+e.ar.mode.String()] = SArr(e.rs(), rs)
					inst.regions = append(inst.regions, specRegion{key: k, sort: rs, param: pi})
					sorts = append(sorts, rs)
				}
			}
		}
		for _, t := range all {
			sorts = append(sorts, t.Sort)
		}
		inst.psorts = sorts
		e.declareFun("spec:"+id, sorts, inst.ret)
		inst.defined = true
		return inst
	}
	hname := func(k string) string { return smtName("H!" + k) }
	rname := func(k string, p int) string { return smtName(fmt.Sprintf("R!%s!%s", k, pnames[p])) }
	hasKey := func(k string) bool {
		for _, k0 := range inst.keys {
			if k0 == k {
				return true
			}
		}
		return false
	}
	hasRegion := func(k string, p int) bool {
		for _, r := range inst.regions {
			if r.key == k && r.param == p {
				return true
			}
		}
		return false
	}
	var body string
	done := false
	for iter := 0; iter < 8 && !done; iter++ {
		probe := &State{cells: map[*ssa.Alloc]*Cell{}, heap: map[string]Term{}, alloc: Term{"alloc!probe", e.rs()}, guard: TTrue, base: "H!"}
		vals, _ := mkParams()
		env := &Env{e: e, st: probe, bound: map[string]Val{}, pkg: pkg, pkgRel: sp.PkgRel, qdepth: 1}
		for i, pn := range pnames {
			env.bound[pn] = vals[i]
		}
		cl := Clause{File: sp.File, Line: sp.Line}
		env.cl = &cl
		snap := e.snap()
		e.quiet++
		bv := env.typed(env.eval(sp.Body), rt)
		e.quiet--
		touched := map[string]bool{}
		for k := range probe.heap {
			touched[k] = true
		}
		e.rollbackDeclsWithPrefix(snap, "H!")
		body = e.scalar(bv).S
		// replace region patterns
		for _, r := range inst.regions {
			rid, _ := ridOf(vals[r.param])
			body = strings.ReplaceAll(body, "(select "+hname(r.key)+" "+rid.S+")", rname(r.key, r.param))
		}
		changed := false
		for _, k := range sortedKeys(touched) {
			if !strings.Contains(body, hname(k)) {
				continue
			}
			// try to regionise through each reference parameter
			for pi, v := range vals {
				rid, ok := ridOf(v)
				if !ok || hasRegion(k, pi) {
					continue
				}
				pat := "(select " + hname(k) + " " + rid.S + ")"
				if strings.Contains(body, pat) {
					full := keySorts[k+"|"+e.ar.mode.String()]
					inst.regions = append(inst.regions, specRegion{key: k, sort: arrElemSort(full), param: pi})
					body = strings.ReplaceAll(body, pat, rname(k, pi))
					changed = true
				}
			}
			if strings.Contains(body, hname(k)) && !hasKey(k) {
				inst.keys = append(inst.keys, k)
				inst.ksorts = append(inst.ksorts, keySorts[k+"|"+e.ar.mode.String()])
				changed = true
			}
		}
		if !changed {
			done = true
		}
	}
	if !done {
		panic(evalError{"spec " + id + ": heap dependencies did not stabilise"})
	}
	// drop whole-map parameters that the final body no longer mentions
	var keys []string
	var ksorts []Sort
	for i, k := range inst.keys {
		if strings.Contains(body, hname(k)) {
			keys = append(keys, k)
			ksorts = append(ksorts, inst.ksorts[i])
		}
	}
	if len(keys) != len(inst.keys) {
		// layout changed after the last evaluation: recursive applications inside body used the old layout
		inst.keys, inst.ksorts = keys, ksorts
		delete(e.specDone, id)
		// re-run once with the final layout fixed
		e.specDone[id] = inst
		probe := &State{cells: map[*ssa.Alloc]*Cell{}, heap: map[string]Term{}, alloc: Term{"alloc!probe", e.rs()}, guard: TTrue, base: "H!"}
		vals, _ := mkParams()
		env := &Env{e: e, st: probe, bound: map[string]Val{}, pkg: pkg, pkgRel: sp.PkgRel, qdepth: 1}
		for i, pn := range pnames {
			env.bound[pn] = vals[i]
		}
		snap := e.snap()
		e.quiet++
		bv := env.typed(env.eval(sp.Body), rt)
		e.quiet--
		e.rollbackDeclsWithPrefix(snap, "H!")
		body = e.scalar(bv).S
		for _, r := range inst.regions {
			rid, _ := ridOf(vals[r.param])
			body = strings.ReplaceAll(body, "(select "+hname(r.key)+" "+rid.S+")", rname(r.key, r.param))
		}
		for _, k := range sortedKeys(map[string]bool{}) {
			_ = k
		}
	}
	_, all := mkParams()
	var params []Term
	var sorts []Sort
	for i, k := range inst.keys {
		params = append(params, Term{hname(k), inst.ksorts[i]})
		sorts = append(sorts, inst.ksorts[i])
	}
	for _, r := range inst.regions {
		params = append(params, Term{rname(r.key, r.param), r.sort})
		sorts = append(sorts, r.sort)
	}
	params = append(params, all...)
	for _, t := range all {
		sorts = append(sorts, t.Sort)
	}
	inst.psorts = sorts
	e.declareFun("spec:"+id, sorts, inst.ret)
	bodyT := Term{body, inst.ret}
	if len(params) == 0 {
		e.assumps = append(e.assumps, Assump{T: Eq(Term{inst.fname, inst.ret}, bodyT)})
	} else {
		ap := app(inst.ret, inst.fname, params...)
		e.assumps = append(e.assumps, Assump{T: Forall(params, Eq(ap, bodyT), []Term{ap})})
	}
	inst.defined = true
	return inst
}

func sortStrings(s []string) {
	for i := 1; i < len(s); i++ {
		for j := i; j > 0 && s[j] < s[j-1]; j-- {
			s[j], s[j-1] = s[j-1], s[j]
		}
	}
}

// rollbackDeclsWithPrefix removes declarations made since snap whose name starts with prefix.
func (e *Engine) rollbackDeclsWithPrefix(s snapshot, prefix string) {
	var keepD, keepN []string
	for i := s.nd; i < len(e.decls); i++ {
		n := e.declName[i]
		raw := strings.Trim(n, "|")
		if strings.HasPrefix(raw, prefix) {
			delete(e.declared, n)
			continue
		}
		keepD = append(keepD, e.decls[i])
		keepN = append(keepN, n)
	}
	e.decls = append(e.decls[:s.nd], keepD...)
	e.declName = append(e.declName[:s.nd], keepN...)
}

var _ = strconv.Itoa
