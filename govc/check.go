package main

import (
	"bufio"
	"encoding/json"
	"fmt"
	"os"
	"path/filepath"
	"runtime"
	"sort"
	"strconv"
	"strings"
	"time"
)

const verifRoot = "/verif"

// outRoot: where evidence and replay files go (GOVC_OUT redirects them for selftests on scratch copies).
var outRoot = envOr("GOVC_OUT", verifRoot)

type KnownFinding struct {
	Property   string `json:"property"`
	Obligation string `json:"obligation"`
	Class      string `json:"class,omitempty"`   // contract-language predicate over the inputs describing the failing class
	Witness    string `json:"witness,omitempty"` // go test file (relative to /verif) demonstrating the defect on the real code
	Pkg        string `json:"pkg,omitempty"`     // package dir (relative to /repo) in which the witness runs
	What       string `json:"what"`
}

func loadKnownFindings() []KnownFinding {
	var out []KnownFinding
	fh, err := os.Open(filepath.Join(verifRoot, "known_findings.jsonl"))
	if err != nil {
		return nil
	}
	defer fh.Close()
	sc := bufio.NewScanner(fh)
	sc.Buffer(make([]byte, 1<<20), 1<<20)
	for sc.Scan() {
		l := strings.TrimSpace(sc.Text())
		if l == "" || strings.HasPrefix(l, "#") || strings.HasPrefix(l, "fixed:") {
			continue
		}
		var k KnownFinding
		if json.Unmarshal([]byte(l), &k) == nil && k.Obligation != "" {
			out = append(out, k)
		}
	}
	return out
}

func loadExpected(prop string) (map[string]bool, []string) {
	m := map[string]bool{}
	var order []string
	fh, err := os.Open(filepath.Join(verifRoot, "expected", prop+".txt"))
	if err != nil {
		return m, nil
	}
	defer fh.Close()
	sc := bufio.NewScanner(fh)
	for sc.Scan() {
		l := strings.TrimSpace(sc.Text())
		if l == "" || strings.HasPrefix(l, "#") {
			continue
		}
		if !m[l] {
			m[l] = true
			order = append(order, l)
		}
	}
	return m, order
}

func hasProp(props []string, p string) bool {
	for _, x := range props {
		if x == p {
			return true
		}
	}
	return false
}

// stableName strips block suffixes that are not stable under harmless edits.
func stableName(n string) string { return n }

type checkOutcome struct {
	results    []*FuncResult
	byName     map[string]*Oblig
	fnErr      map[string]string
	wall       float64
}

// matchExpected: exact name, or wildcard "fn/kind#*" covering every obligation of that safety kind in fn.
func matchExpected(expected map[string]bool, o *Oblig) bool {
	if expected[o.Name] {
		return true
	}
	if i := strings.LastIndex(o.Name, "@b"); i >= 0 && expected[o.Name[:i]+"@*"] {
		return true
	}
	if isSafetyKind(o.Kind) {
		if expected[o.Fn+"/"+o.Kind+"#*"] {
			return true
		}
	}
	if o.Kind == "modifies" && expected[o.Fn+"/modifies[*]"] {
		return true
	}
	return false
}

func runProperty(w *World, prop string, quickSec, fullSec int, expected map[string]bool) *checkOutcome {
	out := &checkOutcome{byName: map[string]*Oblig{}, fnErr: map[string]string{}}
	var keys []string
	for k, ct := range w.contracts {
		if hasProp(ct.Props, prop) && !ct.Trusted {
			keys = append(keys, k)
		}
	}
	sort.Strings(keys)
	for _, k := range keys {
		ct := w.contracts[k]
		fn := w.funcs[k]
		if fn == nil {
			r := &FuncResult{Key: k, Err: "contract key matches no function in /repo", Props: ct.Props}
			out.results = append(out.results, r)
			out.fnErr[k] = r.Err
			continue
		}
		r := w.verifyFunc(fn, ct, w.modeFor(ct))
		out.results = append(out.results, r)
		if r.Err != "" {
			out.fnErr[k] = r.Err
		}
	}
	for _, lr := range w.verifyLemmas(prop) {
		out.results = append(out.results, lr)
		if lr.Err != "" {
			out.fnErr[lr.Key] = lr.Err
		}
	}
	for _, dr := range w.verifyData(prop) {
		out.results = append(out.results, dr)
		if dr.Err != "" {
			out.fnErr[dr.Key] = dr.Err
		}
	}
	solveAllF(out.results, func(o *Oblig) (int, int) {
		if expected == nil || matchExpected(expected, o) {
			return quickSec, fullSec
		}
		return 2, 0 // unclaimed: one short attempt, for the evidence only
	}, runtime.NumCPU())
	for _, r := range out.results {
		for _, o := range r.Obls {
			out.byName[o.Name] = o
		}
	}
	return out
}

func cmdCheck(args []string) int {
	if len(args) < 1 {
		fmt.Fprintln(os.Stderr, "usage: govc check <prop> [quick|thorough]")
		return 2
	}
	prop := args[0]
	tier := "quick"
	if len(args) > 1 {
		tier = args[1]
	}
	if t := os.Getenv("VERIF_TIER"); t != "" && len(args) < 2 {
		tier = t
	}
	seed := 0
	if s := os.Getenv("VERIF_SEED"); s != "" {
		seed, _ = strconv.Atoi(s)
	}
	start := time.Now()
	defer cleanupWorkDir()
	quickSec, fullSec := 5, 30
	if tier == "thorough" {
		quickSec, fullSec = 10, 120
	}
	expected, order := loadExpected(prop)
	if tier == "thorough" {
		e2, o2 := loadExpected(prop + ".thorough")
		for k := range e2 {
			expected[k] = true
		}
		order = append(order, o2...)
	}
	findings := loadKnownFindings()
	replayDir := filepath.Join(outRoot, "replays", prop)
	os.MkdirAll(replayDir, 0o755)

	var violations []string
	var knownLines []string
	w, err := loadWorld()
	if err != nil {
		// the tree does not load: every claimed obligation is undischarged
		path := filepath.Join(replayDir, "load-failure.txt")
		os.WriteFile(path, []byte("govc could not load /repo with -tags verif:\n"+err.Error()+"\n"), 0o644)
		fmt.Printf("VIOLATION property=%s replay=%s obligation=<all> reason=repo-does-not-load no-failing-input-found\n", prop, path)
		writeEvidence(prop, tier, seed, nil, nil, expected, order, nil, nil, 1, time.Since(start).Seconds(), nil, 0)
		return 1
	}
	var out *checkOutcome
	if prop == "C09" {
		// zero-annotation sweep: only the functions with claimed groups are translated in the quick tier
		only := map[string]bool{}
		for name := range expected {
			only[w.fnOfObligation(name)] = true
		}
		if tier == "thorough" {
			only = nil
		}
		out = &checkOutcome{byName: map[string]*Oblig{}, fnErr: map[string]string{}}
		var exp map[string]bool
		if tier != "thorough" {
			exp = expected
		}
		out.results = runSweep(w, only, 3000, exp)
		for _, r := range out.results {
			if r.Err != "" {
				out.fnErr[r.Key] = r.Err
			}
			for _, o := range r.Obls {
				out.byName[o.Name] = o
			}
		}
		// functions the sweep cannot decide without help carry light contracts (tag C09c: preconditions taken
		// from their call sites and loop invariants); they are verified like any other contract and excluded
		// from the sweep
		e2, o2 := loadExpected("C09c")
		if tier == "thorough" {
			e3, o3 := loadExpected("C09c.thorough")
			for k := range e3 {
				e2[k] = true
			}
			o2 = append(o2, o3...)
		}
		for k := range e2 {
			expected[k] = true
		}
		order = append(order, o2...)
		out2 := runProperty(w, "C09c", quickSec, fullSec, e2)
		out.results = append(out.results, out2.results...)
		for k, v := range out2.fnErr {
			out.fnErr[k] = v
		}
		for k, v := range out2.byName {
			out.byName[k] = v
		}
	} else {
		out = runProperty(w, prop, quickSec, fullSec, expected)
	}

	// known findings first
	kfByObl := map[string]KnownFinding{}
	for _, k := range findings {
		if k.Property == prop {
			kfByObl[k.Obligation] = k
		}
	}
	handledKF := map[string]bool{}
	for name, kf := range kfByObl {
		o := out.byName[name]
		if o == nil {
			// obligation disappeared: treat like any missing obligation below if expected
			continue
		}
		if o.Res != nil && o.Res.Proved(o) {
			// defect no longer present: nothing to report (stale entry)
			handledKF[name] = true
			continue
		}
		ok, detail := w.checkKnownFinding(out, o, kf, fullSec)
		if ok {
			knownLines = append(knownLines, fmt.Sprintf("KNOWN-FINDING: property=%s %s (%s)", prop, kf.What, name))
			handledKF[name] = true
		} else {
			path := filepath.Join(replayDir, sanitizeFile(name)+".txt")
			os.WriteFile(path, []byte("obligation "+name+" fails outside the class of the recorded known finding\n"+detail+"\n"), 0o644)
			violations = append(violations, fmt.Sprintf("VIOLATION property=%s replay=%s obligation=%s differs-from-known-finding no-failing-input-found", prop, path, name))
			handledKF[name] = true
		}
	}

	discharged := 0
	// expand wildcards into the obligations generated now
	var expanded []string
	for _, name := range order {
		if strings.HasSuffix(name, "/modifies[*]") {
			// frame wildcard: every frame obligation generated now for the function (possibly none: a function
			// that writes nothing generates none); a change that makes the function write a new location creates
			// a new frame obligation, which this wildcard covers
			pre := strings.TrimSuffix(name, "*]")
			dup := map[string]bool{}
			for _, e := range order {
				dup[e] = true
			}
			for _, r := range out.results {
				for _, o := range r.Obls {
					if o.Kind == "modifies" && strings.HasPrefix(o.Name, pre) && !dup[o.Name] {
						expanded = append(expanded, o.Name)
					}
				}
			}
			if fn := strings.TrimSuffix(name, "/modifies[*]"); out.fnErr[fn] != "" {
				expanded = append(expanded, name)
			}
			continue
		}
		if strings.HasSuffix(name, "#*") || strings.HasSuffix(name, "@*") {
			pre := strings.TrimSuffix(name, "*")
			if strings.HasSuffix(name, "@*") {
				pre += "b"
			}
			n := 0
			for _, r := range out.results {
				for _, o := range r.Obls {
					if strings.HasPrefix(o.Name, pre) && (isSafetyKind(o.Kind) || strings.HasSuffix(name, "@*")) {
						expanded = append(expanded, o.Name)
						n++
					}
				}
			}
			if n == 0 {
				fn := w.fnOfObligation(name)
				if _, bad := out.fnErr[fn]; bad || strings.HasSuffix(name, "@*") {
					expanded = append(expanded, name)
				}
			}
			continue
		}
		expanded = append(expanded, name)
	}
	order = expanded
	for _, name := range order {
		if handledKF[name] {
			continue
		}
		o := out.byName[name]
		if o == nil {
			fn := w.fnOfObligation(name)
			reason := "obligation is no longer generated"
			if e, ok := out.fnErr[fn]; ok {
				reason = e
			}
			path := filepath.Join(replayDir, sanitizeFile(name)+".txt")
			os.WriteFile(path, []byte(fmt.Sprintf("obligation: %s\nstatus: not generated\nreason: %s\n", name, reason)), 0o644)
			violations = append(violations, fmt.Sprintf("VIOLATION property=%s replay=%s obligation=%s reason=%q no-failing-input-found", prop, path, name, firstLines(reason, 1)))
			continue
		}
		if o.Res != nil && o.Res.Proved(o) {
			discharged++
			continue
		}
		// failed: try to obtain and replay a counterexample
		path, confirmed := w.replayObligation(out, o, replayDir)
		line := fmt.Sprintf("VIOLATION property=%s replay=%s obligation=%s status=%s", prop, path, name, statusOf(o))
		if !confirmed {
			line += " no-failing-input-found"
		}
		violations = append(violations, line)
	}
	sort.Strings(knownLines)
	for _, l := range knownLines {
		fmt.Println(l)
	}
	// summary
	nobl, nproved := 0, 0
	for _, r := range out.results {
		for _, o := range r.Obls {
			nobl++
			if o.Res != nil && o.Res.Proved(o) {
				nproved++
			}
		}
	}
	fmt.Printf("property %s tier %s: %d functions under contract, %d obligations generated, %d proved; %d claimed, %d of them discharged; %d known findings; %d violations; %.1fs\n",
		prop, tier, len(out.results), nobl, nproved, len(order), discharged, len(knownLines), len(violations), time.Since(start).Seconds())
	for _, r := range out.results {
		if r.Err != "" {
			fmt.Printf("  note: %s: %s\n", r.Key, firstLines(r.Err, 2))
		}
	}
	for _, v := range violations {
		fmt.Println(v)
	}
	writeEvidence(prop, tier, seed, w, out, expected, order, knownLines, violations, len(violations), time.Since(start).Seconds(), handledKF, discharged)
	if len(violations) > 0 {
		return 1
	}
	if len(order) == 0 {
		fmt.Println("engine error: no claimed obligations for", prop)
		return 2
	}
	return 0
}

// cmdClaim writes /verif/expected/<prop>.txt from the current tree: every proved obligation that meets the claiming rule.
func cmdClaim(args []string) int {
	if len(args) < 1 {
		return 2
	}
	prop := args[0]
	defer cleanupWorkDir()
	w, err := loadWorld()
	if err != nil {
		fmt.Fprintln(os.Stderr, err)
		return 2
	}
	noReseed = true
	out := runProperty(w, prop, 3, 60, nil)
	var names []string
	var slowNames []string
	slow := 0
	wild := map[string]bool{}
	for _, r := range out.results {
		if loopBroken(r) {
			fmt.Printf("  NOT CLAIMING %s: a loop invariant is not inductive (init/preserve not proved)\n", r.Key)
			continue
		}
		// safety kinds are claimed per function only when all of that kind are proved
		kindAll := map[string]bool{}
		for _, o := range r.Obls {
			if isSafetyKind(o.Kind) {
				if _, seen := kindAll[o.Kind]; !seen {
					kindAll[o.Kind] = true
				}
				if !(o.Res != nil && o.Res.Proved(o)) {
					kindAll[o.Kind] = false
				}
			}
		}
		for _, o := range r.Obls {
			if o.Res == nil || !o.Res.Proved(o) {
				fmt.Printf("  not claimed (%s): %s\n", statusOf(o), o.Name)
				continue
			}
			if o.WantSat {
				// vacuity guards (requires-sat, loop cover) are satisfiability queries: best-effort diagnostics,
				// reported in the evidence but never claimed (a solver timeout on them must not raise an alarm)
				continue
			}
			if isSafetyKind(o.Kind) {
				if kindAll[o.Kind] {
					wc := o.Fn + "/" + o.Kind + "#*"
					if !wild[wc] {
						wild[wc] = true
						names = append(names, wc)
					}
				}
				continue
			}
			if o.Res.Ms > 8000 {
				// proved, but too slow for the quick tier: claimed in the thorough tier only
				slow++
				fmt.Printf("  thorough tier only (slow %dms): %s\n", o.Res.Ms, o.Name)
				if isSafetyKind(o.Kind) {
					slowNames = append(slowNames, o.Name)
				} else if i := strings.LastIndex(o.Name, "@b"); i >= 0 {
					slowNames = append(slowNames, o.Name[:i]+"@*")
				} else {
					slowNames = append(slowNames, o.Name)
				}
				continue
			}
			if i := strings.LastIndex(o.Name, "@b"); i >= 0 {
				wc := o.Name[:i] + "@*"
				if !wild[wc] {
					wild[wc] = true
					names = append(names, wc)
				}
				continue
			}
			names = append(names, o.Name)
		}
		if r.Err != "" {
			fmt.Printf("  ERROR %s: %s\n", r.Key, firstLines(r.Err, 6))
		}
		// frame wildcard: the function has an explicit frame and every frame obligation it generates is proved
		if ct := w.contracts[r.Key]; ct != nil && r.Err == "" && !ct.ModAny && !ct.Trusted && ct.ModSet {
			all := true
			for _, o := range r.Obls {
				if o.Kind == "modifies" && !(o.Res != nil && o.Res.Proved(o) && o.Res.Ms <= 8000) {
					all = false
				}
			}
			if all {
				names = append(names, r.Key+"/modifies[*]")
			}
		}
	}
	os.MkdirAll(filepath.Join(verifRoot, "expected"), 0o755)
	var sb strings.Builder
	sb.WriteString("# obligations claimed as proved for " + prop + " on the unchanged tree (written by `govc claim`, committed; read-only at check time)\n")
	for _, n := range names {
		sb.WriteString(n + "\n")
	}
	os.WriteFile(filepath.Join(verifRoot, "expected", prop+".txt"), []byte(sb.String()), 0o644)
	var sb2 strings.Builder
	sb2.WriteString("# additional obligations claimed for " + prop + " in the thorough tier only (proved, but slower than the quick-tier claiming rule allows)\n")
	inQuick := map[string]bool{}
	for _, n := range names {
		inQuick[n] = true
	}
	seen := map[string]bool{}
	for _, n := range slowNames {
		if !inQuick[n] && !seen[n] {
			seen[n] = true
			sb2.WriteString(n + "\n")
		}
	}
	os.WriteFile(filepath.Join(verifRoot, "expected", prop+".thorough.txt"), []byte(sb2.String()), 0o644)
	fmt.Printf("claimed %d obligations for %s (%d too slow)\n", len(names), prop, slow)
	return 0
}

func isSafetyKind(k string) bool {
	switch k {
	case "index", "slice", "nil", "div", "shift", "overflow", "panic", "make", "typeassert", "mapwrite-nil":
		return true
	}
	return false
}

// ---------------------------------------------------------------- evidence

func writeEvidence(prop, tier string, seed int, w *World, out *checkOutcome, expected map[string]bool, order []string, known []string, violations []string, nviol int, wall float64, handledKF map[string]bool, mainDischarged int) {
	type oblRec struct {
		Name   string `json:"name"`
		Kind   string `json:"kind"`
		Status string `json:"status"`
		Solver string `json:"solver,omitempty"`
		Ms     int64  `json:"ms"`
		Pos    string `json:"pos,omitempty"`
		Claimed bool  `json:"claimed"`
	}
	type fnRec struct {
		Func       string   `json:"function"`
		Mode       string   `json:"integers"`
		Error      string   `json:"error,omitempty"`
		Obligations []oblRec `json:"obligations"`
		Unmodelled []string `json:"unmodelled_calls,omitempty"`
		Notes      []string `json:"notes,omitempty"`
	}
	var fns []fnRec
	var samples []interface{}
	claimed, discharged := 0, 0
	_ = discharged
	var undecided []string
	solverMs := map[string]int64{}
	solverN := map[string]int{}
	assumptions := []string{
		"A1: int/uint/uintptr are 64 bit",
		"A2: slice offsets/lengths/capacities and pointer indices are <= 2^40",
		"trusted: go/packages, go/types, go/ssa (NaiveForm) give the semantics of the code the compiler compiles; govc's translation of SSA to SMT; the SMT solvers",
		"partial correctness: termination is proved only where a loop has a decreases clause",
		"dropped: garbage collection, stack growth, out-of-memory panics, goroutine scheduling (single-threaded execution), value of cap after a reallocating append (symbolic >= len)",
		"pointer parameters (incl. receivers) of functions under contract are assumed non-nil unless declared nilable",
	}
	if out != nil {
		trusted := map[string]bool{}
		for k, ct := range w.contracts {
			if ct.Trusted {
				trusted[k] = true
			}
		}
		for _, r := range out.results {
			fr := fnRec{Func: r.Key, Mode: r.Mode, Error: firstLines(r.Err, 3), Unmodelled: r.Unmodelled, Notes: r.Notes}
			for _, o := range r.Obls {
				rec := oblRec{Name: o.Name, Kind: o.Kind, Status: statusOf(o), Pos: o.Pos, Claimed: matchExpected(expected, o)}
				if o.Res != nil {
					rec.Solver, rec.Ms = o.Res.Solver, o.Res.Ms
					solverMs[o.Res.Solver] += o.Res.Ms
					solverN[o.Res.Solver]++
				}
				fr.Obligations = append(fr.Obligations, rec)
				if matchExpected(expected, o) {
					claimed++
					if o.Res != nil && o.Res.Proved(o) {
						discharged++
						if len(samples) < 6 {
							samples = append(samples, map[string]interface{}{"obligation": o.Name, "kind": o.Kind, "solver": o.Res.Solver, "ms": o.Res.Ms, "at": o.Pos})
						}
					}
				} else if !(o.Res != nil && o.Res.Proved(o)) {
					undecided = append(undecided, o.Name+" ("+statusOf(o)+")")
				}
			}
			fns = append(fns, fr)
		}
		var tr []string
		for k := range trusted {
			tr = append(tr, k)
		}
		sort.Strings(tr)
		for _, k := range tr {
			assumptions = append(assumptions, "trusted contract (body not checked): "+k)
		}
		for _, r := range out.results {
			if ct := w.contracts[r.Key]; ct != nil {
				for _, c := range ct.Ensures {
					if strings.HasPrefix(c.Label, "ghost-") {
						assumptions = append(assumptions, "ghost token (postcondition assumed at call sites, not proved): "+r.Key+"/ensures["+c.Label+"]")
					}
				}
			}
		}
		for _, sp := range w.specs {
			if sp.Opaque {
				assumptions = append(assumptions, "uninterpreted spec function: "+sp.PkgRel+"."+sp.Name)
			}
		}
	}
	// claimed obligations that were not generated count as undischarged
	missing := 0
	for _, n := range order {
		if out == nil || out.byName[n] == nil {
			missing++
		}
	}
	if len(samples) == 0 {
		samples = append(samples, map[string]interface{}{"note": "no obligation was discharged in this run"})
	}
	solverStats := map[string]interface{}{}
	for s, ms := range solverMs {
		solverStats[s] = map[string]interface{}{"queries_won": solverN[s], "ms": ms}
	}
	kfN := 0
	for range handledKF {
		kfN++
	}
	ev := map[string]interface{}{
		"property_id": prop,
		"tier":        tier,
		"seed":        seed,
		"level":       "proof",
		"coverage": map[string]interface{}{
			"obligations":  len(order),
			"discharged":   mainDischarged,
			"checker_cmd":  "bin/check " + prop + " " + tier + "  (govc: go/ssa NaiveForm -> weakest-precondition style VCs -> z3-new 5.1.0 | cvc5 1.0 | z3 4.8.12 raced per obligation)",
			"trusted_base": []string{"go/packages+go/types+go/ssa v0.29.0", "govc VC generator (/verif/govc)", "z3 4.8.12", "z3-new 5.1.0", "cvc5 1.0", "contract files /repo/*/zz_verif_contracts.go (specs written from the property statements)"},
			"samples":      samples,
			"functions_under_contract": fns,
			"generated_not_claimed_undecided": undecided,
			"claimed_but_not_generated": missing,
			"solver_time": solverStats,
			"known_findings_reported": known,
			"violation_lines": violations,
			"explanation": "obligations = claimed obligation names in /verif/expected/" + prop + ".txt; discharged = those proved this run from /repo's current tree (a known finding counts as discharged only under its recorded class exclusion); everything else generated is listed as undecided and never alarmed on",
		},
		"assumptions": assumptions,
		"wall_s":      wall,
		"violations":  nviol,
	}
	os.MkdirAll(filepath.Join(outRoot, "evidence"), 0o755)
	b, _ := json.MarshalIndent(ev, "", " ")
	os.WriteFile(filepath.Join(outRoot, "evidence", prop+".json"), b, 0o644)
}

func kfDischarged(known []string) int { return len(known) }

// loopBroken: some loop-init / loop-preserve / decreases obligation of the function is not proved,
// so nothing that assumes the invariant may be claimed.
func loopBroken(r *FuncResult) bool {
	for _, o := range r.Obls {
		switch o.Kind {
		case "loop-init", "loop-preserve":
			if o.Res == nil || !o.Res.Proved(o) {
				return true
			}
		}
	}
	return false
}

// fnOfObligation: the function key an obligation name belongs to (keys themselves contain slashes).
func (w *World) fnOfObligation(name string) string {
	best := ""
	for i := 0; i < len(name); i++ {
		if name[i] != '/' {
			continue
		}
		k := name[:i]
		if _, ok := w.funcs[k]; ok && len(k) > len(best) {
			best = k
		} else if _, ok := w.contracts[k]; ok && len(k) > len(best) {
			best = k
		}
	}
	if best == "" {
		if i := strings.Index(name, "/"); i >= 0 {
			return name[:i]
		}
		return name
	}
	return best
}
