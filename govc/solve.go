package main

import (
	"bytes"
	"context"
	"fmt"
	"os"
	"os/exec"
	"path/filepath"
	"strings"
	"sync"
	"time"
)

type SolveResult struct {
	Status string // unsat, sat, unknown, timeout, error
	Solver string
	Ms     int64
	Output string
	File   string
	Model  map[string]string
}

func (r *SolveResult) Proved(o *Oblig) bool {
	if o.WantSat {
		return r.Status == "sat"
	}
	return r.Status == "unsat"
}

var workDir string

func initWorkDir() {
	if workDir != "" {
		return
	}
	base := os.Getenv("GOVC_WORK")
	if base == "" {
		base = "/var/tmp"
	}
	d, err := os.MkdirTemp(base, "govc-")
	if err != nil {
		panic(err)
	}
	workDir = d
}

func cleanupWorkDir() {
	if workDir != "" && os.Getenv("GOVC_KEEP") == "" {
		os.RemoveAll(workDir)
	}
}

func sanitizeFile(s string) string {
	var b strings.Builder
	for _, c := range s {
		if (c >= 'a' && c <= 'z') || (c >= 'A' && c <= 'Z') || (c >= '0' && c <= '9') || c == '.' || c == '-' || c == '_' {
			b.WriteRune(c)
		} else {
			b.WriteByte('_')
		}
	}
	r := b.String()
	if len(r) > 180 {
		r = r[:180]
	}
	return r
}

// smtText renders the query for obligation o. extra is appended before check-sat; tail after.
func (e *Engine) smtText(o *Oblig, extra string, tail string) string {
	return e.smtTextV(o, extra, tail, false)
}

func (e *Engine) hasLemmas(o *Oblig) bool {
	for _, a := range e.assumps[:o.NAssump] {
		if a.Tag == "lemma" {
			return true
		}
	}
	return false
}

// symbolsOf: declared symbols occurring in text (token scan).
func (e *Engine) symbolsOf(text string, out map[string]bool) {
	i := 0
	for i < len(text) {
		c := text[i]
		if c == '|' {
			j := strings.IndexByte(text[i+1:], '|')
			if j < 0 {
				return
			}
			tok := text[i : i+j+2]
			if e.declared[tok] {
				out[tok] = true
			}
			i += j + 2
			continue
		}
		if c == '(' || c == ')' || c == ' ' || c == '\n' {
			i++
			continue
		}
		j := i
		for j < len(text) && text[j] != '(' && text[j] != ')' && text[j] != ' ' && text[j] != '\n' {
			j++
		}
		tok := text[i:j]
		if e.declared[tok] {
			out[tok] = true
		}
		i = j
	}
}

// liteAssumptions selects the quantifier-free assumptions in the cone of influence of the goal
// (allocation counters do not connect). Dropping assumptions is sound for proving.
func (e *Engine) liteAssumptions(o *Oblig) map[int]bool {
	cone := map[string]bool{}
	e.symbolsOf(o.Guard.S, cone)
	e.symbolsOf(o.Goal.S, cone)
	n := o.NAssump
	syms := make([]map[string]bool, n)
	for i, a := range e.assumps[:n] {
		if strings.Contains(a.T.S, "(forall ") || strings.Contains(a.T.S, "(exists ") {
			continue
		}
		m := map[string]bool{}
		e.symbolsOf(a.T.S, m)
		syms[i] = m
	}
	keep := map[int]bool{}
	isConnector := func(s string) bool {
		return strings.HasPrefix(s, "alloc") || strings.HasPrefix(s, "L") && strings.Contains(s, ".alloc")
	}
	for changed := true; changed; {
		changed = false
		for i := 0; i < n; i++ {
			if keep[i] || syms[i] == nil {
				continue
			}
			hit := false
			for s := range syms[i] {
				if cone[s] && !isConnector(s) {
					hit = true
					break
				}
			}
			if hit {
				keep[i] = true
				changed = true
				for s := range syms[i] {
					if !isConnector(s) {
						cone[s] = true
					}
				}
			}
		}
	}
	// drop kept assumptions that only talk about connectors and Int regions
	return keep
}

func (e *Engine) smtTextLite(o *Oblig) string {
	keep := e.liteAssumptions(o)
	var body strings.Builder
	for _, d := range e.decls[:o.NDecl] {
		body.WriteString(d)
		body.WriteByte('\n')
	}
	for i, a := range e.assumps[:o.NAssump] {
		if !keep[i] {
			continue
		}
		body.WriteString("(assert ")
		body.WriteString(a.T.S)
		body.WriteString(")\n")
	}
	fmt.Fprintf(&body, "(assert %s)\n(assert (not %s))\n", o.Guard.S, o.Goal.S)
	text := body.String()
	return "(set-option :produce-models true)\n(set-logic ALL)\n" + e.preludeFor(text) + text + "(check-sat)\n"
}

func (e *Engine) smtTextV(o *Oblig, extra string, tail string, dropLemmas bool) string {
	var body strings.Builder
	for _, d := range e.decls[:o.NDecl] {
		body.WriteString(d)
		body.WriteByte('\n')
	}
	for _, a := range e.assumps[:o.NAssump] {
		if dropLemmas && a.Tag == "lemma" {
			continue
		}
		body.WriteString("(assert ")
		body.WriteString(a.T.S)
		body.WriteString(")\n")
	}
	if o.WantSat {
		fmt.Fprintf(&body, "(assert %s)\n(assert %s)\n", o.Guard.S, o.Goal.S)
	} else {
		fmt.Fprintf(&body, "(assert %s)\n(assert (not %s))\n", o.Guard.S, o.Goal.S)
	}
	body.WriteString(extra)
	text := body.String()
	var sb strings.Builder
	sb.WriteString("(set-option :produce-models true)\n(set-logic ALL)\n")
	// helper definitions and their (quantified) axioms only when the query mentions them, so that
	// quantifier-free queries stay quantifier-free and failed obligations come back sat with a model
	sb.WriteString(e.preludeFor(text))
	sb.WriteString(text)
	sb.WriteString("(check-sat)\n")
	sb.WriteString(tail)
	return sb.String()
}

func (e *Engine) preludeFor(text string) string {
	var sb strings.Builder
	if e.ar.mode == ModeInt {
		if strings.Contains(text, "(tdiv ") || strings.Contains(text, "(trem ") {
			sb.WriteString("(define-fun tdiv ((a Int) (b Int)) Int (ite (>= a 0) (ite (> b 0) (div a b) (- (div a (- b)))) (ite (> b 0) (- (div (- a) b)) (div (- a) (- b)))))\n")
			sb.WriteString("(define-fun trem ((a Int) (b Int)) Int (- a (* b (tdiv a b))))\n")
		}
		if strings.Contains(text, "(pow2 ") {
			sb.WriteString("(declare-fun pow2 (Int) Int)\n(assert (= (pow2 0) 1))\n(assert (forall ((k Int)) (! (=> (> k 0) (= (pow2 k) (* 2 (pow2 (- k 1))))) :pattern ((pow2 k)))))\n")
		}
		for _, w := range []int{8, 16, 32, 64} {
			for _, f := range []string{"band", "bor", "bxor", "bandnot"} {
				name := fmt.Sprintf("%s%d", f, w)
				if !strings.Contains(text, "("+name+" ") {
					continue
				}
				fmt.Fprintf(&sb, "(declare-fun %s (Int Int) Int)\n", name)
				switch f {
				case "band":
					fmt.Fprintf(&sb, "(assert (forall ((a Int) (b Int)) (! (=> (and (>= a 0) (>= b 0)) (and (>= (%s a b) 0) (<= (%s a b) a) (<= (%s a b) b))) :pattern ((%s a b)))))\n", name, name, name, name)
				case "bor":
					fmt.Fprintf(&sb, "(assert (forall ((a Int) (b Int)) (! (=> (and (>= a 0) (>= b 0)) (and (>= (%s a b) a) (>= (%s a b) b) (<= (%s a b) (+ a b)))) :pattern ((%s a b)))))\n", name, name, name, name)
				}
			}
		}
	}
	s := e.ar.idxSort()
	if strings.Contains(text, "(idx ") {
		plus := "+"
		if e.ar.mode == ModeBV {
			plus = "bvadd"
		}
		fmt.Fprintf(&sb, "(declare-fun idx (%s %s) %s)\n(assert (forall ((a %s) (b %s)) (! (= (idx a b) (%s a b)) :pattern ((idx a b)))))\n", s, s, s, s, s, plus)
	}
	if strings.Contains(text, "(mark ") {
		fmt.Fprintf(&sb, "(declare-fun mark (%s) Bool)\n(assert (forall ((a %s)) (! (mark a) :pattern ((mark a)))))\n", s, s)
	}
	return sb.String()
}

type solverSpec struct {
	name string
	args func(file string, sec int) []string
}

var solvers = []solverSpec{
	{"z3-new", func(f string, s int) []string { return []string{"z3-new", fmt.Sprintf("-T:%d", s), f} }},
	{"cvc5", func(f string, s int) []string {
		return []string{"cvc5", "--incremental", fmt.Sprintf("--tlimit=%d", s*1000), f}
	}},
	{"z3", func(f string, s int) []string { return []string{"z3", fmt.Sprintf("-T:%d", s), f} }},
}

func runSolver(ctx context.Context, sp solverSpec, file string, sec int) SolveResult {
	args := sp.args(file, sec)
	start := time.Now()
	cctx, cancel := context.WithTimeout(ctx, time.Duration(sec+2)*time.Second)
	defer cancel()
	cmd := exec.CommandContext(cctx, args[0], args[1:]...)
	var out bytes.Buffer
	cmd.Stdout = &out
	cmd.Stderr = &out
	cmd.Run()
	ms := time.Since(start).Milliseconds()
	text := out.String()
	first := strings.TrimSpace(strings.SplitN(text, "\n", 2)[0])
	res := SolveResult{Solver: sp.name, Ms: ms, Output: text, File: file}
	switch first {
	case "unsat", "sat", "unknown":
		res.Status = first
	case "timeout":
		res.Status = "timeout"
	default:
		if cctx.Err() != nil {
			res.Status = "timeout"
		} else if strings.Contains(text, "timeout") || strings.Contains(text, "interrupted") {
			res.Status = "timeout"
		} else {
			res.Status = "error"
		}
	}
	return res
}

// solveFile races the solvers on a file.
func solveFile(file string, quickSec, fullSec int) SolveResult {
	// stage 1: z3-new alone, short
	r := runSolver(context.Background(), solvers[0], file, quickSec)
	if r.Status == "unsat" || r.Status == "sat" {
		return r
	}
	first := r
	if fullSec <= 0 {
		return first
	}
	ctx, cancel := context.WithCancel(context.Background())
	defer cancel()
	ch := make(chan SolveResult, len(solvers))
	n := 0
	for i, sp := range solvers {
		if i == 0 && fullSec <= quickSec {
			continue
		}
		n++
		go func(sp solverSpec) { ch <- runSolver(ctx, sp, file, fullSec) }(sp)
	}
	var last SolveResult = first
	var errs []string
	for i := 0; i < n; i++ {
		x := <-ch
		if x.Status == "unsat" || x.Status == "sat" {
			return x
		}
		if x.Status == "error" {
			errs = append(errs, x.Solver+": "+firstLines(x.Output, 3))
		}
		if last.Status == "error" || (x.Status != "error") {
			last = x
		}
	}
	if len(errs) > 0 && last.Status != "unknown" && last.Status != "timeout" {
		last.Output = strings.Join(errs, "\n")
	} else if len(errs) > 0 {
		last.Output += "\n" + strings.Join(errs, "\n")
	}
	return last
}

// noReseed: claiming must not rely on the reseeded retry (only robustly provable obligations are claimed).
var noReseed bool

var reseeded = []solverSpec{
	{"z3-new", func(f string, s int) []string {
		return []string{"z3-new", "smt.random_seed=17", "sat.random_seed=17", fmt.Sprintf("-T:%d", s), f}
	}},
	{"z3-new", func(f string, s int) []string {
		return []string{"z3-new", "smt.random_seed=101", "smt.arith.random_initial_value=true", fmt.Sprintf("-T:%d", s), f}
	}},
	{"z3", func(f string, s int) []string { return []string{"z3", "smt.random_seed=23", fmt.Sprintf("-T:%d", s), f} }},
	{"cvc5", func(f string, s int) []string {
		return []string{"cvc5", "--incremental", "--seed=11", fmt.Sprintf("--tlimit=%d", s*1000), f}
	}},
}

// solveFileReseeded races reseeded solver configurations; only an unsat answer is used.
func solveFileReseeded(file string, sec int) SolveResult {
	ctx, cancel := context.WithCancel(context.Background())
	defer cancel()
	ch := make(chan SolveResult, len(reseeded))
	for _, sp := range reseeded {
		go func(sp solverSpec) { ch <- runSolver(ctx, sp, file, sec) }(sp)
	}
	last := SolveResult{Status: "timeout"}
	for range reseeded {
		x := <-ch
		if x.Status == "unsat" {
			return x
		}
		last = x
	}
	return last
}

func firstLines(s string, n int) string {
	ls := strings.Split(s, "\n")
	if len(ls) > n {
		ls = ls[:n]
	}
	return strings.Join(ls, " | ")
}

// solveAll discharges all obligations of the results in parallel.
func solveAll(results []*FuncResult, quickSec, fullSec int, par int) {
	solveAllF(results, func(o *Oblig) (int, int) { return quickSec, fullSec }, par)
}

// solveAllF: per-obligation timeouts (quick stage, full race); full <= 0 skips the race.
func solveAllF(results []*FuncResult, limits func(o *Oblig) (int, int), par int) {
	initWorkDir()
	type job struct {
		e *Engine
		o *Oblig
	}
	var jobs []job
	for _, r := range results {
		for _, o := range r.Obls {
			if o.Res != nil {
				continue // decided without a solver (ground data invariants)
			}
			jobs = append(jobs, job{r.Engine, o})
		}
	}
	var wg sync.WaitGroup
	ch := make(chan job)
	for i := 0; i < par; i++ {
		wg.Add(1)
		go func() {
			defer wg.Done()
			for j := range ch {
				file := filepath.Join(workDir, sanitizeFile(j.o.Name)+".smt2")
				text := j.e.smtText(j.o, "", "")
				if len(text) > 8<<20 {
					j.o.Res = &SolveResult{Status: "error", Output: "VC larger than 8 MB"}
					continue
				}
				os.WriteFile(file, []byte(text), 0o644)
				q, f := limits(j.o)
				r := solveFile(file, q, f)
				j.o.Res = &r
				if !j.o.Res.Proved(j.o) && !j.o.WantSat && f > 0 && j.o.Res.Status != "sat" {
					// attempt with the quantifier-free cone of influence only (sound: fewer assumptions)
					file3 := filepath.Join(workDir, sanitizeFile(j.o.Name)+".lite.smt2")
					os.WriteFile(file3, []byte(j.e.smtTextLite(j.o)), 0o644)
					r3 := solveFile(file3, q, f)
					if r3.Status == "unsat" {
						r3.Solver += "(qf-cone)"
						j.o.Res = &r3
					}
				}
				if !j.o.Res.Proved(j.o) && !j.o.WantSat && f > 0 && j.e.hasLemmas(j.o) {
					// second attempt without the (proved) ghost assertions: fewer quantified facts
					file2 := filepath.Join(workDir, sanitizeFile(j.o.Name)+".nolemma.smt2")
					os.WriteFile(file2, []byte(j.e.smtTextV(j.o, "", "", true)), 0o644)
					r2 := solveFile(file2, q, f)
					if r2.Proved(j.o) {
						r2.Solver += "(no-lemmas)"
						j.o.Res = &r2
					}
				}
				if !noReseed && !j.o.Res.Proved(j.o) && !j.o.WantSat && f > 0 && (j.o.Res.Status == "timeout" || j.o.Res.Status == "unknown") {
					// last attempt: the same query with other random seeds (quantifier instantiation is sensitive to
					// them; a proof that usually takes a second must not fail the check because of one unlucky run)
					r4 := solveFileReseeded(file, f)
					if r4.Proved(j.o) {
						r4.Solver += "(reseeded)"
						j.o.Res = &r4
					}
				}
			}
		}()
	}
	for _, j := range jobs {
		ch <- j
	}
	close(ch)
	wg.Wait()
}

// getModel re-runs a sat query asking for the values of the given terms.
func (e *Engine) getModel(o *Oblig, terms []NamedTerm, extra string, solver string) (map[string]string, string) {
	initWorkDir()
	var tail strings.Builder
	if len(terms) > 0 {
		tail.WriteString("(get-value (")
		for _, t := range terms {
			tail.WriteString(t.T.S)
			tail.WriteByte(' ')
		}
		tail.WriteString("))\n")
	}
	file := filepath.Join(workDir, sanitizeFile(o.Name)+".model.smt2")
	os.WriteFile(file, []byte(e.smtText(o, extra, tail.String())), 0o644)
	var sp solverSpec = solvers[0]
	for _, s := range solvers {
		if s.name == solver {
			sp = s
		}
	}
	r := runSolver(context.Background(), sp, file, 20)
	if r.Status != "sat" {
		return nil, r.Output
	}
	vals := parseGetValue(r.Output)
	m := map[string]string{}
	for i, t := range terms {
		if i < len(vals) {
			m[t.Name] = vals[i]
		}
	}
	return m, r.Output
}

// parseGetValue parses "((t1 v1) (t2 v2) ...)" returning v's in order.
func parseGetValue(out string) []string {
	i := strings.Index(out, "((")
	if i < 0 {
		return nil
	}
	s := out[i:]
	// tokenise s-expressions
	var vals []string
	depth := 0
	start := -1
	for k := 0; k < len(s); k++ {
		c := s[k]
		if c == '|' {
			// quoted symbol
			j := strings.IndexByte(s[k+1:], '|')
			if j < 0 {
				break
			}
			k += j + 1
			continue
		}
		switch c {
		case '(':
			depth++
			if depth == 2 {
				start = k
			}
		case ')':
			if depth == 2 && start >= 0 {
				pair := s[start+1 : k]
				vals = append(vals, secondSexp(pair))
				start = -1
			}
			depth--
			if depth == 0 {
				return vals
			}
		}
	}
	return vals
}

// secondSexp returns the second s-expression in "a b".
func secondSexp(p string) string {
	p = strings.TrimSpace(p)
	// skip first sexp
	k := 0
	depth := 0
	inq := false
	for ; k < len(p); k++ {
		c := p[k]
		if c == '|' {
			inq = !inq
			continue
		}
		if inq {
			continue
		}
		if c == '(' {
			depth++
		} else if c == ')' {
			depth--
			if depth == 0 {
				k++
				break
			}
		} else if (c == ' ' || c == '\n' || c == '\t') && depth == 0 {
			break
		}
	}
	return strings.TrimSpace(p[k:])
}
