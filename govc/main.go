package main

import (
	"fmt"
	"os"
	"runtime"
	"sort"
	"strings"

	"golang.org/x/tools/go/packages"
	"golang.org/x/tools/go/ssa"
	"golang.org/x/tools/go/ssa/ssautil"
)

// repoRoot: the tree under verification. GOVC_REPO redirects it to a scratch copy (selftests with deliberately broken
// code); the registered checks never set it.
var repoRoot = envOr("GOVC_REPO", "/repo")

func envOr(k, d string) string {
	if v := os.Getenv(k); v != "" {
		return v
	}
	return d
}

func loadWorld() (*World, error) {
	cfg := &packages.Config{Mode: packages.LoadAllSyntax, Dir: repoRoot, BuildFlags: []string{"-tags=verif"},
		Env: append(os.Environ(), "GOFLAGS=-mod=mod", "GOPROXY=off", "GOSUMDB=off", "GOTOOLCHAIN=local")}
	pkgs, err := packages.Load(cfg, "./...")
	if err != nil {
		return nil, err
	}
	nerr := 0
	packages.Visit(pkgs, nil, func(p *packages.Package) {
		if strings.HasPrefix(p.PkgPath, strings.TrimSuffix(modPrefix, "/")) {
			for _, e := range p.Errors {
				fmt.Fprintln(os.Stderr, "load error:", e)
				nerr++
			}
		}
	})
	if nerr > 0 {
		return nil, fmt.Errorf("%d package errors: /repo does not compile", nerr)
	}
	prog, _ := ssautil.AllPackages(pkgs, ssa.NaiveForm)
	prog.Build()
	w := &World{prog: prog, fset: prog.Fset, pkgs: map[string]*packages.Package{}, spkgs: map[string]*ssa.Package{},
		funcs: map[string]*ssa.Function{}, globals: map[*ssa.Global]int{}, inlineStd: map[string]bool{}}
	packages.Visit(pkgs, nil, func(p *packages.Package) {
		w.pkgs[p.PkgPath] = p
		for _, f := range p.Syntax {
			for _, im := range f.Imports {
				if im.Name != nil && im.Name.Name != "_" && im.Name.Name != "." {
					if importAliases[p.PkgPath] == nil {
						importAliases[p.PkgPath] = map[string]string{}
					}
					importAliases[p.PkgPath][im.Name.Name] = strings.Trim(im.Path.Value, "\"")
				}
			}
		}
	})
	for _, sp := range prog.AllPackages() {
		w.spkgs[sp.Pkg.Path()] = sp
	}
	for fn := range ssautil.AllFunctions(prog) {
		if fn.Pkg == nil || fn.Synthetic != "" {
			continue
		}
		w.funcs[funcKey(fn)] = fn
	}
	if err := w.loadContracts(repoRoot); err != nil {
		return nil, err
	}
	return w, nil
}

func (w *World) modeFor(ct *Contract) Mode {
	if ct != nil && ct.ModeSet {
		return ct.Mode
	}
	return ModeBV
}

func statusOf(o *Oblig) string {
	if o.Res == nil {
		return "unsolved"
	}
	if o.Res.Proved(o) {
		return "proved"
	}
	if o.WantSat {
		return "vacuous:" + o.Res.Status
	}
	switch o.Res.Status {
	case "sat":
		return "refuted(model)"
	}
	return "undecided:" + o.Res.Status
}

func cmdShow(args []string) int {
	w, err := loadWorld()
	if err != nil {
		fmt.Fprintln(os.Stderr, err)
		return 2
	}
	defer cleanupWorkDir()
	var results []*FuncResult
	for _, key := range args {
		fn := w.funcs[key]
		if fn == nil {
			fmt.Printf("no function %s\n", key)
			var near []string
			for k := range w.funcs {
				if strings.Contains(k, key[strings.LastIndex(key, ".")+1:]) {
					near = append(near, k)
				}
			}
			sort.Strings(near)
			fmt.Println("  candidates:", near)
			continue
		}
		ct := w.contracts[key]
		r := w.verifyFunc(fn, ct, w.modeFor(ct))
		results = append(results, r)
	}
	full := 10
	if v := os.Getenv("GOVC_T"); v != "" {
		fmt.Sscanf(v, "%d", &full)
	}
	solveAll(results, 2, full, runtime.NumCPU())
	for _, r := range results {
		fmt.Printf("== %s (mode %s)\n", r.Key, r.Mode)
		if r.Err != "" {
			fmt.Printf("   ERROR %s\n", r.Err)
		}
		for _, o := range r.Obls {
			fmt.Printf("   %-60s %-22s %s %dms %s\n", strings.TrimPrefix(o.Name, r.Key+"/"), statusOf(o), o.Res.Solver, o.Res.Ms, o.Pos)
			if o.Res.Status == "error" {
				fmt.Printf("      %s\n", firstLines(o.Res.Output, 4))
			}
		}
		for _, u := range r.Unmodelled {
			fmt.Printf("   unmodelled: %s\n", u)
		}
		for _, n := range r.Notes {
			fmt.Printf("   note: %s\n", n)
		}
	}
	return 0
}

func main() {
	if len(os.Args) < 2 {
		fmt.Fprintln(os.Stderr, "usage: govc show <func>... | check <prop> <tier> | claim <prop>")
		os.Exit(2)
	}
	var rc int
	switch os.Args[1] {
	case "show":
		rc = cmdShow(os.Args[2:])
	case "check":
		rc = cmdCheck(os.Args[2:])
	case "sweep-replay":
		rc = cmdSweepReplay(os.Args[2:])
	case "claim":
		if len(os.Args) > 2 && os.Args[2] == "C09" {
			rc = cmdSweepClaim()
		} else {
			rc = cmdClaim(os.Args[2:])
		}
	default:
		fmt.Fprintln(os.Stderr, "unknown command")
		rc = 2
	}
	os.Exit(rc)
}
