package main

import (
	"bytes"
	"context"
	"fmt"
	"os"
	"os/exec"
	"path/filepath"
	"sort"
	"strings"
	"sync"
	"time"

	"golang.org/x/tools/go/ssa"
)

// Zero-annotation safety sweep (property C09): every function of the font-parsing packages is translated in bv mode
// with arbitrary well-formed parameters, automatic loop facts only, callees inlined or havocked; each
// index/slice/nil/div/shift/make/panic site is one obligation. A verdict "proved" is sound (over-approximation);
// "refuted" counts only after the panic is replayed on the real function.

var sweepPackages = []string{
	"font/opentype", "font/opentype/tables", "font", "font/cff", "font/cff/interpreter",
}

func sweepFunctions(w *World) []*ssa.Function {
	var fns []*ssa.Function
	for key, fn := range w.funcs {
		if fn.Blocks == nil || fn.Parent() != nil {
			continue
		}
		ok := false
		for _, p := range sweepPackages {
			if strings.HasPrefix(key, p+".") && !strings.Contains(strings.TrimPrefix(key, p+"."), "/") {
				ok = true
			}
		}
		if !ok {
			continue
		}
		if fn.Name() == "init" || strings.HasPrefix(fn.Name(), "init#") {
			continue
		}
		// generics are outside the subset
		if fn.TypeParams().Len() > 0 || len(fn.TypeArgs()) > 0 {
			continue
		}
		// functions with a light contract (tag C09c) are verified in contract mode instead
		if ct := w.contracts[key]; ct != nil && hasProp(ct.Props, "C09c") {
			continue
		}
		fns = append(fns, fn)
	}
	sort.Slice(fns, func(i, j int) bool { return funcKey(fns[i]) < funcKey(fns[j]) })
	return fns
}

// solveIncremental discharges all obligations of one function in a single solver process (push/pop).
func solveIncremental(e *Engine, obls []*Oblig, perQueryMs int, totalSec int) {
	if len(obls) == 0 {
		return
	}
	initWorkDir()
	var sb strings.Builder
	sb.WriteString("(set-option :produce-models false)\n(set-logic ALL)\n")
	fmt.Fprintf(&sb, "(set-option :timeout %d)\n", perQueryMs)
	// prelude for everything the function may mention
	var all strings.Builder
	for _, d := range e.decls {
		all.WriteString(d)
	}
	for _, a := range e.assumps {
		all.WriteString(a.T.S)
	}
	for _, o := range obls {
		all.WriteString(o.Guard.S)
		all.WriteString(o.Goal.S)
	}
	sb.WriteString(e.preludeFor(all.String()))
	nd, na := 0, 0
	for _, o := range obls {
		for ; nd < o.NDecl; nd++ {
			sb.WriteString(e.decls[nd])
			sb.WriteByte('\n')
		}
		for ; na < o.NAssump; na++ {
			sb.WriteString("(assert ")
			sb.WriteString(e.assumps[na].T.S)
			sb.WriteString(")\n")
		}
		fmt.Fprintf(&sb, "(push 1)\n(assert %s)\n(assert (not %s))\n(check-sat)\n(pop 1)\n", o.Guard.S, o.Goal.S)
	}
	file := filepath.Join(workDir, sanitizeFile("sweep."+e.key)+".smt2")
	os.WriteFile(file, []byte(sb.String()), 0o644)
	ctx, cancel := context.WithTimeout(context.Background(), time.Duration(totalSec)*time.Second)
	defer cancel()
	start := time.Now()
	cmd := exec.CommandContext(ctx, "z3-new", file)
	var out bytes.Buffer
	cmd.Stdout = &out
	cmd.Stderr = &out
	cmd.Run()
	ms := time.Since(start).Milliseconds()
	lines := strings.Split(out.String(), "\n")
	k := 0
	for _, o := range obls {
		st := "timeout"
		for k < len(lines) {
			l := strings.TrimSpace(lines[k])
			k++
			if l == "unsat" || l == "sat" || l == "unknown" {
				st = l
				break
			}
			if strings.HasPrefix(l, "(error") {
				st = "error"
				o.Res = &SolveResult{Status: "error", Solver: "z3-new(incremental)", Output: l, File: file}
				break
			}
		}
		if o.Res == nil || o.Res.Status != "error" {
			o.Res = &SolveResult{Status: st, Solver: "z3-new(incremental)", Ms: ms / int64(len(obls)), File: file}
		}
	}
}

// runSweep generates and discharges the safety obligations of every function in the sweep scope.
func runSweep(w *World, only map[string]bool, perQueryMs int, expected map[string]bool) []*FuncResult {
	w.sweep = true
	defer func() { w.sweep = false }()
	fns := sweepFunctions(w)
	var results []*FuncResult
	var wg sync.WaitGroup
	ch := make(chan *FuncResult, 4)
	for i := 0; i < 16; i++ {
		wg.Add(1)
		go func() {
			defer wg.Done()
			for r := range ch {
				if r.Engine != nil {
					solveIncremental(r.Engine, r.Obls, perQueryMs, 60+len(r.Obls)*perQueryMs/1000)
					if expected != nil {
						// check mode: a claimed obligation the incremental run left undecided gets the full treatment
						// (own query, solver race, reseeded retry) before it is reported
						for _, o := range r.Obls {
							if o.Res != nil && (o.Res.Status == "unsat" || o.Res.Status == "sat") {
								continue
							}
							initWorkDir()
							file := filepath.Join(workDir, sanitizeFile("sweep1."+o.Name)+".smt2")
							os.WriteFile(file, []byte(r.Engine.smtText(o, "", "")), 0o644)
							x := solveFile(file, 5, 30)
							if x.Status != "unsat" && x.Status != "sat" {
								if y := solveFileReseeded(file, 30); y.Status == "unsat" {
									y.Solver += "(reseeded)"
									x = y
								}
							}
							o.Res = &x
						}
					}
				}
				// release the (large) symbolic state: only verdicts are kept; a refuted obligation is
				// regenerated on demand for replay
				r.Engine = nil
				for _, o := range r.Obls {
					o.Guard, o.Goal = TTrue, TTrue
					o.Inputs = nil
				}
			}
		}()
	}
	for _, fn := range fns {
		key := funcKey(fn)
		if only != nil && !only[key] {
			continue
		}
		if os.Getenv("GOVC_TRACE") != "" {
			fmt.Fprintln(os.Stderr, "sweep:", key)
		}
		r := w.verifyFunc(fn, nil, ModeBV)
		r.Sweep = true
		var keep []*Oblig
		for _, o := range r.Obls {
			if isSafetyKind(o.Kind) {
				keep = append(keep, o)
			}
		}
		if expected != nil {
			// check mode: only claimed obligations are discharged (the others are listed as unsolved)
			var claimed []*Oblig
			for _, o := range keep {
				if matchExpected(expected, o) {
					claimed = append(claimed, o)
				}
			}
			keep = claimed
		}
		r.Obls = keep
		results = append(results, r)
		ch <- r
	}
	close(ch)
	wg.Wait()
	return results
}

// cmdSweepClaim writes expected/C09.txt: per function and safety kind, a wildcard when every obligation of that kind
// in that function is proved.
func cmdSweepClaim() int {
	defer cleanupWorkDir()
	w, err := loadWorld()
	if err != nil {
		fmt.Fprintln(os.Stderr, err)
		return 2
	}
	start := time.Now()
	results := runSweep(w, nil, 1000, nil)
	var names []string
	nfn, nobl, nproved, nerr := 0, 0, 0, 0
	for _, r := range results {
		nfn++
		if r.Err != "" {
			nerr++
			continue
		}
		kindAll := map[string]bool{}
		kindN := map[string]int{}
		for _, o := range r.Obls {
			nobl++
			if _, seen := kindAll[o.Kind]; !seen {
				kindAll[o.Kind] = true
			}
			kindN[o.Kind]++
			if o.Res != nil && o.Res.Status == "unsat" {
				nproved++
			} else {
				kindAll[o.Kind] = false
			}
		}
		var ks []string
		for k, ok := range kindAll {
			if ok {
				ks = append(ks, k)
			}
		}
		sort.Strings(ks)
		for _, k := range ks {
			names = append(names, fmt.Sprintf("%s/%s#* %d", r.Key, k, kindN[k]))
		}
	}
	if rep := os.Getenv("GOVC_SWEEP_REPORT"); rep != "" {
		// full verdict list (development aid: triage of refuted sites)
		var rb strings.Builder
		for _, r := range results {
			if r.Err != "" {
				fmt.Fprintf(&rb, "ERR\t%s\t%s\n", r.Key, firstLines(r.Err, 1))
			}
			for _, o := range r.Obls {
				st := "unsolved"
				if o.Res != nil {
					st = o.Res.Status
				}
				if st != "unsat" {
					fmt.Fprintf(&rb, "%s\t%s\t%s\n", st, o.Name, o.Pos)
				}
			}
		}
		os.WriteFile(rep, []byte(rb.String()), 0o644)
	}
	var sb strings.Builder
	sb.WriteString("# C09 sweep: per function and safety kind, all obligations of that kind proved on the unchanged tree (count after the name is informational)\n")
	for _, n := range names {
		sb.WriteString(strings.Fields(n)[0] + "\n")
	}
	os.MkdirAll(filepath.Join(verifRoot, "expected"), 0o755)
	os.WriteFile(filepath.Join(verifRoot, "expected", "C09.txt"), []byte(sb.String()), 0o644)
	fmt.Printf("sweep: %d functions (%d outside subset/engine errors), %d safety obligations, %d proved; %d function/kind groups claimed; %.1fs\n",
		nfn, nerr, nobl, nproved, len(names), time.Since(start).Seconds())
	return 0
}

// cmdSweepReplay: development aid for the triage of refuted sweep obligations. The named functions are translated
// without contract; every refuted safety obligation is replayed on the real function with the solver's inputs; the
// confirmed panics are listed.
func cmdSweepReplay(keys []string) int {
	defer cleanupWorkDir()
	w, err := loadWorld()
	if err != nil {
		fmt.Fprintln(os.Stderr, err)
		return 2
	}
	w.sweep = true
	dir := filepath.Join(outRoot, "replays", "sweep")
	os.MkdirAll(dir, 0o755)
	for _, key := range keys {
		fn := w.funcs[key]
		if fn == nil {
			fmt.Printf("no function %s\n", key)
			continue
		}
		r := w.verifyFunc(fn, nil, ModeBV)
		var keep []*Oblig
		for _, o := range r.Obls {
			if isSafetyKind(o.Kind) {
				keep = append(keep, o)
			}
		}
		r.Obls = keep
		out := &checkOutcome{byName: map[string]*Oblig{}, fnErr: map[string]string{}, results: []*FuncResult{r}}
		solveAll(out.results, 2, 5, 16)
		seen := map[string]bool{}
		for _, o := range r.Obls {
			if o.Res == nil || o.Res.Status != "sat" || seen[o.Pos] {
				continue
			}
			seen[o.Pos] = true
			path, confirmed := w.replayObligation(out, o, dir)
			if confirmed {
				fmt.Printf("CONFIRMED PANIC %s at %s (replay %s)\n", o.Name, o.Pos, path)
			} else {
				fmt.Printf("not confirmed   %s at %s\n", o.Name, o.Pos)
			}
		}
	}
	return 0
}
