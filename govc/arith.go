package main

import (
	"strings"
	"fmt"
	"go/token"
	"go/types"
	"math/big"
)

type Mode int

const (
	ModeBV Mode = iota
	ModeInt
)

func (m Mode) String() string {
	if m == ModeBV {
		return "bv"
	}
	return "int"
}

// intInfo returns width and signedness of an integer basic type (A1: 64-bit int).
func intInfo(t types.Type) (w int, signed bool, ok bool) {
	b, isb := t.Underlying().(*types.Basic)
	if !isb {
		return 0, false, false
	}
	switch b.Kind() {
	case types.Int8:
		return 8, true, true
	case types.Int16:
		return 16, true, true
	case types.Int32:
		return 32, true, true
	case types.Int64, types.Int:
		return 64, true, true
	case types.Uint8:
		return 8, false, true
	case types.Uint16:
		return 16, false, true
	case types.Uint32:
		return 32, false, true
	case types.Uint64, types.Uint, types.Uintptr:
		return 64, false, true
	case types.UntypedInt, types.UntypedRune:
		return 64, true, true
	}
	return 0, false, false
}

func isFloat(t types.Type) bool {
	b, ok := t.Underlying().(*types.Basic)
	return ok && b.Info()&types.IsFloat != 0
}
func isBool(t types.Type) bool {
	b, ok := t.Underlying().(*types.Basic)
	return ok && b.Info()&types.IsBoolean != 0
}
func isString(t types.Type) bool {
	b, ok := t.Underlying().(*types.Basic)
	return ok && b.Info()&types.IsString != 0
}
func isInteger(t types.Type) bool {
	_, _, ok := intInfo(t)
	return ok
}

func pow2(w int) *big.Int { return new(big.Int).Lsh(big.NewInt(1), uint(w)) }

// Arith translates Go scalar operations into SMT terms for one mode.
type Arith struct {
	mode Mode
}

// ridSort: sort of region identifiers and opaque handles.
func (a *Arith) ridSort() Sort {
	if a.mode == ModeBV {
		return SBV(64)
	}
	return SInt
}

func (a *Arith) idxSort() Sort {
	if a.mode == ModeBV {
		return SBV(64)
	}
	return SInt
}

func (a *Arith) intSort(t types.Type) Sort {
	w, _, ok := intInfo(t)
	if !ok {
		panic("intSort of non-int " + t.String())
	}
	if a.mode == ModeBV {
		return SBV(w)
	}
	return SInt
}

func (a *Arith) idxLit(n int64) Term {
	if a.mode == ModeBV {
		return BVLit(big.NewInt(n), 64)
	}
	return IntLit(n)
}

func (a *Arith) intLit(n *big.Int, t types.Type) Term {
	w, signed, _ := intInfo(t)
	if a.mode == ModeBV {
		return BVLit(n, w)
	}
	// normalise into the type's range
	v := new(big.Int).Set(n)
	m := pow2(w)
	v.Mod(v, m)
	if signed && v.Cmp(pow2(w-1)) >= 0 {
		v.Sub(v, m)
	}
	return BigIntLit(v)
}

// rangeFact: the constraint that x lies in type t's range (int mode only).
func (a *Arith) rangeFact(x Term, t types.Type) Term {
	if a.mode == ModeBV {
		return TTrue
	}
	w, signed, ok := intInfo(t)
	if !ok {
		return TTrue
	}
	if signed {
		lo := new(big.Int).Neg(pow2(w - 1))
		hi := new(big.Int).Sub(pow2(w-1), big.NewInt(1))
		return And(app(SBool, "<=", BigIntLit(lo), x), app(SBool, "<=", x, BigIntLit(hi)))
	}
	hi := new(big.Int).Sub(pow2(w), big.NewInt(1))
	return And(app(SBool, "<=", IntLit(0), x), app(SBool, "<=", x, BigIntLit(hi)))
}

// wrap maps a mathematical integer into the range of t (int mode).
func (a *Arith) wrap(x Term, t types.Type) Term {
	w, signed, _ := intInfo(t)
	m := BigIntLit(pow2(w))
	if !signed {
		return app(SInt, "mod", x, m)
	}
	h := BigIntLit(pow2(w - 1))
	return app(SInt, "-", app(SInt, "mod", app(SInt, "+", x, h), m), h)
}

// constVal extracts a literal value from a term if it is one.
func constVal(t Term) (*big.Int, bool) {
	s := t.S
	if t.Sort == SInt {
		n := new(big.Int)
		if _, ok := n.SetString(s, 10); ok {
			return n, true
		}
		var inner string
		if _, err := fmt.Sscanf(s, "(- %s", &inner); err == nil {
			inner = inner[:len(inner)-1]
			if _, ok := n.SetString(inner, 10); ok {
				return n.Neg(n), true
			}
		}
		return nil, false
	}
	if t.Sort.IsBV() {
		var v string
		var w int
		if _, err := fmt.Sscanf(s, "(_ bv%s %d)", &v, &w); err == nil {
			n := new(big.Int)
			if _, ok := n.SetString(v, 10); ok {
				return n, true
			}
		}
	}
	return nil, false
}

// Overflow describes a potential overflow to be turned into an obligation (int mode, 64-bit).
type Overflow struct {
	Cond Term // must hold for no overflow
}

// BinOp computes x op y for operands of Go type t (result type t, or bool for comparisons).
// For shifts, y may have a different type yt.
func (a *Arith) BinOp(op token.Token, x, y Term, t types.Type, yt types.Type) (Term, *Overflow) {
	if isBool(t) {
		switch op {
		case token.EQL:
			return Eq(x, y), nil
		case token.NEQ:
			return Not(Eq(x, y)), nil
		case token.LAND, token.AND:
			return And(x, y), nil
		case token.LOR, token.OR:
			return Or(x, y), nil
		}
		panic("bool binop " + op.String())
	}
	if isFloat(t) {
		switch op {
		case token.ADD:
			return app(SReal, "+", x, y), nil
		case token.SUB:
			return app(SReal, "-", x, y), nil
		case token.MUL:
			return app(SReal, "*", x, y), nil
		case token.QUO:
			return app(SReal, "/", x, y), nil
		case token.EQL:
			return Eq(x, y), nil
		case token.NEQ:
			return Not(Eq(x, y)), nil
		case token.LSS:
			return app(SBool, "<", x, y), nil
		case token.LEQ:
			return app(SBool, "<=", x, y), nil
		case token.GTR:
			return app(SBool, ">", x, y), nil
		case token.GEQ:
			return app(SBool, ">=", x, y), nil
		}
		panic("float binop " + op.String())
	}
	w, signed, ok := intInfo(t)
	if !ok {
		// opaque scalars (handles): only equality
		switch op {
		case token.EQL:
			return Eq(x, y), nil
		case token.NEQ:
			return Not(Eq(x, y)), nil
		}
		panic(fmt.Sprintf("binop %s on %s", op, t))
	}
	if a.mode == ModeBV {
		return a.bvBinOp(op, x, y, w, signed, yt), nil
	}
	return a.intBinOp(op, x, y, t, w, signed, yt)
}

// bvPow2Lit: y is the literal 2^k (0 < k < w-1) of width w.
func bvPow2Lit(y Term, w int) (int, bool) {
	var n uint64
	if _, err := fmt.Sscanf(y.S, "(_ bv%d ", &n); err != nil || !strings.HasPrefix(y.S, "(_ bv") {
		return 0, false
	}
	if n < 2 || n&(n-1) != 0 {
		return 0, false
	}
	k := 0
	for n>>uint(k) != 1 {
		k++
	}
	if k >= w-1 {
		return 0, false
	}
	return k, true
}

func (a *Arith) bvBinOp(op token.Token, x, y Term, w int, signed bool, yt types.Type) Term {
	s := SBV(w)
	pick := func(sg, us string) string {
		if signed {
			return sg
		}
		return us
	}
	switch op {
	case token.ADD:
		return app(s, "bvadd", x, y)
	case token.SUB:
		return app(s, "bvsub", x, y)
	case token.MUL:
		return app(s, "bvmul", x, y)
	case token.QUO:
		if k, ok := bvPow2Lit(y, w); ok {
			// division by a constant power of two as shifts (a general 64-bit divider is very expensive to
			// bit-blast): truncated division, so negative dividends are negated around the shift
			kk := BVLit(big.NewInt(int64(k)), w)
			if !signed {
				return app(s, "bvlshr", x, kk)
			}
			neg := app(SBool, "bvslt", x, BVLit(big.NewInt(0), w))
			return Ite(neg, app(s, "bvneg", app(s, "bvlshr", app(s, "bvneg", x), kk)), app(s, "bvlshr", x, kk))
		}
		return app(s, pick("bvsdiv", "bvudiv"), x, y)
	case token.REM:
		if k, ok := bvPow2Lit(y, w); ok {
			m := BVLit(new(big.Int).Sub(pow2(k), big.NewInt(1)), w)
			if !signed {
				return app(s, "bvand", x, m)
			}
			neg := app(SBool, "bvslt", x, BVLit(big.NewInt(0), w))
			return Ite(neg, app(s, "bvneg", app(s, "bvand", app(s, "bvneg", x), m)), app(s, "bvand", x, m))
		}
		return app(s, pick("bvsrem", "bvurem"), x, y)
	case token.AND:
		return app(s, "bvand", x, y)
	case token.OR:
		return app(s, "bvor", x, y)
	case token.XOR:
		return app(s, "bvxor", x, y)
	case token.AND_NOT:
		return app(s, "bvand", x, app(s, "bvnot", y))
	case token.SHL, token.SHR:
		// bring the count to width w; counts >= w give 0 / sign fill, which bvshl/bvlshr/bvashr do
		// as long as the count does not wrap when resized.
		yw := y.Sort.BVWidth()
		cnt := y
		if yw < w {
			cnt = Term{fmt.Sprintf("((_ zero_extend %d) %s)", w-yw, y.S), s}
		} else if yw > w {
			// saturate: if y >= w then w else extract
			big := app(SBool, "bvuge", y, BVLit(big.NewInt(int64(w)), yw))
			ex := Term{fmt.Sprintf("((_ extract %d 0) %s)", w-1, y.S), s}
			cnt = Ite(big, BVLit(bigInt(int64(w)), w), ex)
		}
		if op == token.SHL {
			return app(s, "bvshl", x, cnt)
		}
		return app(s, pick("bvashr", "bvlshr"), x, cnt)
	case token.EQL:
		return Eq(x, y)
	case token.NEQ:
		return Not(Eq(x, y))
	case token.LSS:
		return app(SBool, pick("bvslt", "bvult"), x, y)
	case token.LEQ:
		return app(SBool, pick("bvsle", "bvule"), x, y)
	case token.GTR:
		return app(SBool, pick("bvsgt", "bvugt"), x, y)
	case token.GEQ:
		return app(SBool, pick("bvsge", "bvuge"), x, y)
	}
	panic("bv binop " + op.String())
}

func bigInt(n int64) *big.Int { return big.NewInt(n) }

func (a *Arith) intBinOp(op token.Token, x, y Term, t types.Type, w int, signed bool, yt types.Type) (Term, *Overflow) {
	arith := func(r Term) (Term, *Overflow) {
		if w == 64 {
			return r, &Overflow{Cond: a.rangeFact(r, t)}
		}
		return a.wrap(r, t), nil
	}
	switch op {
	case token.ADD:
		return arith(app(SInt, "+", x, y))
	case token.SUB:
		return arith(app(SInt, "-", x, y))
	case token.MUL:
		return arith(app(SInt, "*", x, y))
	case token.QUO:
		if c, ok := constVal(y); ok && c.Sign() > 0 && !signed {
			return app(SInt, "div", x, y), nil
		}
		r := app(SInt, "tdiv", x, y)
		if signed {
			// MinInt / -1 wraps
			return a.wrap(r, t), nil
		}
		return r, nil
	case token.REM:
		if c, ok := constVal(y); ok && c.Sign() > 0 && !signed {
			return app(SInt, "mod", x, y), nil
		}
		return app(SInt, "trem", x, y), nil
	case token.EQL:
		return Eq(x, y), nil
	case token.NEQ:
		return Not(Eq(x, y)), nil
	case token.LSS:
		return app(SBool, "<", x, y), nil
	case token.LEQ:
		return app(SBool, "<=", x, y), nil
	case token.GTR:
		return app(SBool, ">", x, y), nil
	case token.GEQ:
		return app(SBool, ">=", x, y), nil
	case token.SHL:
		if c, ok := constVal(y); ok && c.IsInt64() && c.Int64() >= 0 {
			if c.Int64() >= int64(w) {
				return IntLit(0), nil
			}
			return a.wrap(app(SInt, "*", x, BigIntLit(pow2(int(c.Int64())))), t), nil
		}
		return a.wrap(app(SInt, "*", x, app(SInt, "pow2", y)), t), nil
	case token.SHR:
		if c, ok := constVal(y); ok && c.IsInt64() && c.Int64() >= 0 {
			k := c.Int64()
			if k > 200 {
				k = 200
			}
			return app(SInt, "div", x, BigIntLit(pow2(int(k)))), nil
		}
		return app(SInt, "div", x, app(SInt, "pow2", y)), nil
	case token.AND:
		// mask by 2^k-1
		if c, ok := constVal(y); ok {
			if k, isMask := maskBits(c); isMask {
				return app(SInt, "mod", x, BigIntLit(pow2(k))), nil
			}
		}
		if c, ok := constVal(x); ok {
			if k, isMask := maskBits(c); isMask {
				return app(SInt, "mod", y, BigIntLit(pow2(k))), nil
			}
		}
		return app(SInt, fmt.Sprintf("band%d", w), x, y), nil
	case token.OR:
		return app(SInt, fmt.Sprintf("bor%d", w), x, y), nil
	case token.XOR:
		return app(SInt, fmt.Sprintf("bxor%d", w), x, y), nil
	case token.AND_NOT:
		return app(SInt, fmt.Sprintf("bandnot%d", w), x, y), nil
	}
	panic("int binop " + op.String())
}

func maskBits(c *big.Int) (int, bool) {
	if c.Sign() <= 0 {
		return 0, false
	}
	p := new(big.Int).Add(c, big.NewInt(1))
	if p.BitLen()-1 == int(p.TrailingZeroBits()) {
		return p.BitLen() - 1, true
	}
	return 0, false
}

// intPrelude: helper definitions for int mode.
func intPrelude() string {
	s := `(define-fun tdiv ((a Int) (b Int)) Int (ite (>= a 0) (ite (> b 0) (div a b) (- (div a (- b)))) (ite (> b 0) (- (div (- a) b)) (div (- a) (- b)))))
(define-fun trem ((a Int) (b Int)) Int (- a (* b (tdiv a b))))
(declare-fun pow2 (Int) Int)
(assert (= (pow2 0) 1))
(assert (forall ((k Int)) (! (=> (> k 0) (= (pow2 k) (* 2 (pow2 (- k 1))))) :pattern ((pow2 k)))))
`
	for _, w := range []int{8, 16, 32, 64} {
		for _, f := range []string{"band", "bor", "bxor", "bandnot"} {
			s += fmt.Sprintf("(declare-fun %s%d (Int Int) Int)\n", f, w)
		}
		s += fmt.Sprintf("(assert (forall ((a Int) (b Int)) (! (=> (and (>= a 0) (>= b 0)) (and (>= (band%d a b) 0) (<= (band%d a b) a) (<= (band%d a b) b))) :pattern ((band%d a b)))))\n", w, w, w, w)
		s += fmt.Sprintf("(assert (forall ((a Int) (b Int)) (! (=> (and (>= a 0) (>= b 0)) (and (>= (bor%d a b) a) (>= (bor%d a b) b) (<= (bor%d a b) (+ a b)))) :pattern ((bor%d a b)))))\n", w, w, w, w)
	}
	return s
}

// Neg, Not (bitwise), for unary ops.
func (a *Arith) UnOp(op token.Token, x Term, t types.Type) (Term, *Overflow) {
	if op == token.NOT {
		return Not(x), nil
	}
	if isFloat(t) {
		if op == token.SUB {
			return app(SReal, "-", x), nil
		}
		panic("float unop")
	}
	w, signed, _ := intInfo(t)
	if a.mode == ModeBV {
		switch op {
		case token.SUB:
			return app(SBV(w), "bvneg", x), nil
		case token.XOR:
			return app(SBV(w), "bvnot", x), nil
		}
		panic("unop " + op.String())
	}
	switch op {
	case token.SUB:
		return a.wrap(app(SInt, "-", x), t), nil
	case token.XOR:
		if signed {
			return app(SInt, "-", app(SInt, "-", x), IntLit(1)), nil // ^x = -x-1
		}
		return app(SInt, "-", BigIntLit(new(big.Int).Sub(pow2(w), big.NewInt(1))), x), nil
	}
	panic("unop " + op.String())
}

// Convert converts scalar x of type from to type to.
func (a *Arith) Convert(x Term, from, to types.Type, fresh func(Sort, string) Term) Term {
	fw, fs, fok := intInfo(from)
	tw, ts, tok := intInfo(to)
	switch {
	case fok && tok:
		if a.mode == ModeBV {
			if fw == tw {
				return x
			}
			if fw > tw {
				return Term{fmt.Sprintf("((_ extract %d 0) %s)", tw-1, x.S), SBV(tw)}
			}
			ext := "zero_extend"
			if fs {
				ext = "sign_extend"
			}
			return Term{fmt.Sprintf("((_ %s %d) %s)", ext, tw-fw, x.S), SBV(tw)}
		}
		// int mode: value preserved if source range within target range
		if (fs == ts && fw <= tw) || (!fs && ts && fw < tw) {
			return x
		}
		return a.wrap(x, to)
	case fok && isFloat(to):
		if a.mode == ModeInt {
			return app(SReal, "to_real", x)
		}
		return fresh(SReal, "i2f")
	case isFloat(from) && tok:
		if a.mode == ModeInt {
			tr := Ite(app(SBool, ">=", x, Term{"0.0", SReal}), app(SInt, "to_int", x), app(SInt, "-", app(SInt, "to_int", app(SReal, "-", x))))
			return a.wrap(tr, to)
		}
		return fresh(a.intSort(to), "f2i")
	case isFloat(from) && isFloat(to):
		return x
	}
	if x.Sort == a.scalarSortOrEmpty(to) {
		return x
	}
	return fresh(a.scalarSortOrEmpty(to), "conv")
}

// scalarSortOrEmpty: sort for scalar-like Go types.
func (a *Arith) scalarSortOrEmpty(t types.Type) Sort {
	switch u := t.Underlying().(type) {
	case *types.Basic:
		switch {
		case u.Info()&types.IsBoolean != 0:
			return SBool
		case u.Info()&types.IsInteger != 0:
			return a.intSort(t)
		case u.Info()&types.IsFloat != 0:
			return SReal
		case u.Info()&types.IsString != 0:
			return a.ridSort()
		case u.Kind() == types.UnsafePointer:
			return a.ridSort()
		case u.Kind() == types.UntypedNil:
			return a.ridSort()
		case u.Info()&types.IsComplex != 0:
			return a.ridSort()
		}
	case *types.Map, *types.Chan, *types.Signature, *types.Interface:
		return a.ridSort()
	}
	return ""
}

// idx conversions: Go int value (sort of `int`) <-> index sort are identical in both modes.
func (a *Arith) idxAdd(x, y Term) Term {
	if a.mode == ModeBV {
		if y.S == "(_ bv0 64)" {
			return x
		}
		if x.S == "(_ bv0 64)" {
			return y
		}
		return app(SBV(64), "bvadd", x, y)
	}
	if y.S == "0" {
		return x
	}
	if x.S == "0" {
		return y
	}
	return app(SInt, "+", x, y)
}
func (a *Arith) idxSub(x, y Term) Term {
	if a.mode == ModeBV {
		if y.S == "(_ bv0 64)" {
			return x
		}
		return app(SBV(64), "bvsub", x, y)
	}
	if y.S == "0" {
		return x
	}
	return app(SInt, "-", x, y)
}
func (a *Arith) idxLe(x, y Term) Term {
	if a.mode == ModeBV {
		return app(SBool, "bvsle", x, y)
	}
	return app(SBool, "<=", x, y)
}
func (a *Arith) idxLt(x, y Term) Term {
	if a.mode == ModeBV {
		return app(SBool, "bvslt", x, y)
	}
	return app(SBool, "<", x, y)
}
