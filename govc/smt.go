package main

import (
	"fmt"
	"math/big"
	"strings"
)

// Sort is an SMT-LIB sort, written out.
type Sort string

const (
	SBool Sort = "Bool"
	SInt  Sort = "Int"
	SReal Sort = "Real"
)

func SBV(w int) Sort { return Sort(fmt.Sprintf("(_ BitVec %d)", w)) }

func SArr(i, e Sort) Sort { return Sort(fmt.Sprintf("(Array %s %s)", i, e)) }

func (s Sort) IsBV() bool { return strings.HasPrefix(string(s), "(_ BitVec") }
func (s Sort) BVWidth() int {
	var w int
	fmt.Sscanf(string(s), "(_ BitVec %d)", &w)
	return w
}

// Term is an SMT-LIB term with its sort.
type Term struct {
	S    string
	Sort Sort
}

var (
	TTrue  = Term{"true", SBool}
	TFalse = Term{"false", SBool}
)

func (t Term) String() string { return t.S }

// termBudget bounds the bytes of term text built while translating one function (string terms are trees, so
// repeated copying of large values can blow up exponentially); exceeding it aborts that function as undecided.
var termBytes, termBudget int64

func app(sort Sort, op string, args ...Term) Term {
	n := len(op) + 2
	for _, a := range args {
		n += len(a.S) + 1
	}
	termBytes += int64(n)
	if termBudget > 0 && termBytes > termBudget {
		termBytes = 0
		panic(unsupported{"term blow-up: more than the per-function budget of term text was built; function left undecided"})
	}
	var sb strings.Builder
	sb.WriteByte('(')
	sb.WriteString(op)
	for _, a := range args {
		sb.WriteByte(' ')
		sb.WriteString(a.S)
	}
	sb.WriteByte(')')
	return Term{sb.String(), sort}
}

func And(ts ...Term) Term {
	var out []Term
	for _, t := range ts {
		if t.S == "true" {
			continue
		}
		if t.S == "false" {
			return TFalse
		}
		out = append(out, t)
	}
	switch len(out) {
	case 0:
		return TTrue
	case 1:
		return out[0]
	}
	return app(SBool, "and", out...)
}

func Or(ts ...Term) Term {
	var out []Term
	for _, t := range ts {
		if t.S == "false" {
			continue
		}
		if t.S == "true" {
			return TTrue
		}
		out = append(out, t)
	}
	switch len(out) {
	case 0:
		return TFalse
	case 1:
		return out[0]
	}
	return app(SBool, "or", out...)
}

func Not(t Term) Term {
	if t.S == "true" {
		return TFalse
	}
	if t.S == "false" {
		return TTrue
	}
	if strings.HasPrefix(t.S, "(not ") {
		return Term{t.S[5 : len(t.S)-1], SBool}
	}
	return app(SBool, "not", t)
}

func Implies(a, b Term) Term {
	if a.S == "true" {
		return b
	}
	if a.S == "false" || b.S == "true" {
		return TTrue
	}
	return app(SBool, "=>", a, b)
}

func Eq(a, b Term) Term {
	if a.S == b.S {
		return TTrue
	}
	if a.Sort != b.Sort {
		panic(fmt.Sprintf("Eq sort mismatch: %s:%s vs %s:%s", a.S, a.Sort, b.S, b.Sort))
	}
	return app(SBool, "=", a, b)
}

func Ite(c, a, b Term) Term {
	if c.S == "true" {
		return a
	}
	if c.S == "false" {
		return b
	}
	if a.S == b.S {
		return a
	}
	if a.Sort != b.Sort {
		panic(fmt.Sprintf("Ite sort mismatch: %s:%s vs %s:%s", a.S, a.Sort, b.S, b.Sort))
	}
	return app(a.Sort, "ite", c, a, b)
}

func Select(a, i Term) Term {
	// (Array I E)
	e := arrElemSort(a.Sort)
	return app(e, "select", a, i)
}

func Store(a, i, v Term) Term { return app(a.Sort, "store", a, i, v) }

// arrElemSort parses "(Array I E)" and returns E.
func arrElemSort(s Sort) Sort {
	_, e := arrSorts(s)
	return e
}

func arrSorts(s Sort) (Sort, Sort) {
	str := string(s)
	if !strings.HasPrefix(str, "(Array ") {
		panic("not an array sort: " + str)
	}
	body := str[len("(Array ") : len(str)-1]
	// split first sexp
	depth := 0
	for k := 0; k < len(body); k++ {
		switch body[k] {
		case '(':
			depth++
		case ')':
			depth--
		case ' ':
			if depth == 0 {
				return Sort(body[:k]), Sort(body[k+1:])
			}
		}
	}
	panic("bad array sort: " + str)
}

func IntLit(n int64) Term {
	if n < 0 {
		return Term{fmt.Sprintf("(- %d)", -n), SInt}
	}
	return Term{fmt.Sprintf("%d", n), SInt}
}

func BigIntLit(n *big.Int) Term {
	if n.Sign() < 0 {
		return Term{fmt.Sprintf("(- %s)", new(big.Int).Neg(n).String()), SInt}
	}
	return Term{n.String(), SInt}
}

func BVLit(n *big.Int, w int) Term {
	m := new(big.Int).Lsh(big.NewInt(1), uint(w))
	v := new(big.Int).Mod(n, m)
	if v.Sign() < 0 {
		v.Add(v, m)
	}
	return Term{fmt.Sprintf("(_ bv%s %d)", v.String(), w), SBV(w)}
}

func RealLit(r *big.Rat) Term {
	neg := r.Sign() < 0
	a := new(big.Rat).Abs(r)
	var s string
	if a.IsInt() {
		s = a.Num().String() + ".0"
	} else {
		s = fmt.Sprintf("(/ %s.0 %s.0)", a.Num().String(), a.Denom().String())
	}
	if neg {
		s = "(- " + s + ")"
	}
	return Term{s, SReal}
}

func BoolLit(b bool) Term {
	if b {
		return TTrue
	}
	return TFalse
}

// smtName sanitises an identifier for SMT-LIB (quoted symbol).
func smtName(s string) string {
	ok := true
	for _, c := range s {
		if !(c == '_' || c == '.' || c == '$' || c == '#' || c == '!' || c == '@' || (c >= '0' && c <= '9') || (c >= 'a' && c <= 'z') || (c >= 'A' && c <= 'Z')) {
			ok = false
			break
		}
	}
	if ok && len(s) > 0 && !(s[0] >= '0' && s[0] <= '9') {
		return s
	}
	s = strings.ReplaceAll(s, "|", "!")
	s = strings.ReplaceAll(s, "\\", "!")
	return "|" + s + "|"
}

func Forall(vars []Term, body Term, triggers ...[]Term) Term {
	if len(vars) == 0 {
		return body
	}
	if body.S == "true" {
		return TTrue
	}
	var sb strings.Builder
	sb.WriteString("(forall (")
	for _, v := range vars {
		fmt.Fprintf(&sb, "(%s %s)", v.S, v.Sort)
	}
	sb.WriteString(") ")
	if len(triggers) > 0 {
		sb.WriteString("(! ")
		sb.WriteString(body.S)
		for _, tr := range triggers {
			sb.WriteString(" :pattern (")
			for i, t := range tr {
				if i > 0 {
					sb.WriteByte(' ')
				}
				sb.WriteString(t.S)
			}
			sb.WriteString(")")
		}
		sb.WriteString(")")
	} else {
		sb.WriteString(body.S)
	}
	sb.WriteString(")")
	return Term{sb.String(), SBool}
}

func Exists(vars []Term, body Term) Term {
	if len(vars) == 0 {
		return body
	}
	var sb strings.Builder
	sb.WriteString("(exists (")
	for _, v := range vars {
		fmt.Fprintf(&sb, "(%s %s)", v.S, v.Sort)
	}
	sb.WriteString(") ")
	sb.WriteString(body.S)
	sb.WriteString(")")
	return Term{sb.String(), SBool}
}

// ExistsT: exists with optional patterns (used when the formula ends up in a negative position).
func ExistsT(vars []Term, body Term, triggers ...[]Term) Term {
	if len(triggers) == 0 {
		return Exists(vars, body)
	}
	var sb strings.Builder
	sb.WriteString("(exists (")
	for _, v := range vars {
		fmt.Fprintf(&sb, "(%s %s)", v.S, v.Sort)
	}
	sb.WriteString(") (! ")
	sb.WriteString(body.S)
	for _, tr := range triggers {
		sb.WriteString(" :pattern (")
		for i, t := range tr {
			if i > 0 {
				sb.WriteByte(' ')
			}
			sb.WriteString(t.S)
		}
		sb.WriteString(")")
	}
	sb.WriteString("))")
	return Term{sb.String(), SBool}
}
