package main

import (
	"bufio"
	"fmt"
	"go/ast"
	"go/constant"
	"go/parser"
	"go/token"
	"go/types"
	"os"
	"path/filepath"
	"regexp"
	"strconv"
	"strings"
)

type Clause struct {
	Label string
	Expr  ast.Expr
	Src   string
	File  string
	Line  int
}

type LoopSpec struct {
	Invariants []Clause
	Decreases  *Clause
}

type AssertAt struct {
	// at call <callee>#n  (before the n-th call to callee), or at return
	Callee string
	N      int
	Clause Clause
}

type Contract struct {
	Key        string
	PkgRel     string // package path relative to module (or full path for external)
	Props      []string
	Mode       Mode
	ModeSet    bool
	Trusted    bool
	Pure       bool
	MayPanic   bool
	Requires   []Clause
	Ensures    []Clause
	Modifies   []Clause // each a designator expression; nil + ModNothing
	ModSet     bool     // a modifies clause was given
	ModAny     bool     // "modifies unspecified": no frame claim; callers havoc the heap
	Loops      map[int]*LoopSpec
	Asserts    []AssertAt
	Nilable    map[string]bool
	Callbacks  map[string]bool // function-typed parameters assumed not to write the heap
	Params     []string        // for trusted externals without source
	File       string
	Line       int
	Inline     bool // force inlining at call sites even though a contract exists (contract is then only checked)
	NoOverflow bool // int mode: assume no 64-bit overflow silently? (never set silently; listed in evidence)
}

type SpecFn struct {
	Name   string
	PkgRel string
	Params []*ast.Field
	Result ast.Expr
	Body   ast.Expr
	Src    string
	File   string
	Line   int
	Opaque bool // declared without body (uninterpreted)
}

type Lemma struct {
	Name     string
	PkgRel   string
	Params   []*ast.Field
	Requires []Clause
	Ensures  []Clause
	Induct   string
	Mode     Mode
	Props    []string
	File     string
	Line     int
}

type DataInv struct {
	Name   string
	PkgRel string
	Global string
	Expr   Clause
	Props  []string
}

var labelRe = regexp.MustCompile(`^\[([A-Za-z0-9_.\-]+)\]\s*`) // labels starting with local- are not exported to callers

func parseClause(src, file string, line int) (Clause, error) {
	c := Clause{File: file, Line: line}
	if m := labelRe.FindStringSubmatch(src); m != nil {
		c.Label = m[1]
		src = src[len(m[0]):]
	}
	c.Src = src
	x, err := parser.ParseExpr(src)
	if err != nil {
		return c, fmt.Errorf("%s:%d: %v in %q", file, line, err, src)
	}
	c.Expr = x
	return c, nil
}

// parseSig parses "name(a T, b U) R" into fields and a result expr.
func parseSig(sig string) (name string, params []*ast.Field, result ast.Expr, err error) {
	src := "package p\nfunc " + sig + " {}"
	f, perr := parser.ParseFile(token.NewFileSet(), "", src, 0)
	if perr != nil {
		return "", nil, nil, perr
	}
	fd := f.Decls[0].(*ast.FuncDecl)
	name = fd.Name.Name
	if fd.Type.Params != nil {
		params = fd.Type.Params.List
	}
	if fd.Type.Results != nil && len(fd.Type.Results.List) == 1 {
		result = fd.Type.Results.List[0].Type
	}
	return
}

// loadContracts parses every zz_verif_contracts.go under root.
func (w *World) loadContracts(root string) error {
	w.contracts = map[string]*Contract{}
	w.specs = map[string]*SpecFn{}
	var files []string
	filepath.Walk(root, func(p string, info os.FileInfo, err error) error {
		if err == nil && !info.IsDir() && strings.HasPrefix(filepath.Base(p), "zz_verif_contracts") && strings.HasSuffix(p, ".go") {
			files = append(files, p)
		}
		return nil
	})
	for _, f := range files {
		rel, _ := filepath.Rel(root, filepath.Dir(f))
		if err := w.parseContractFile(f, filepath.ToSlash(rel)); err != nil {
			return err
		}
	}
	return nil
}

func (w *World) parseContractFile(path, pkgRel string) error {
	fh, err := os.Open(path)
	if err != nil {
		return err
	}
	defer fh.Close()
	sc := bufio.NewScanner(fh)
	sc.Buffer(make([]byte, 1<<20), 1<<20)
	type rawLine struct {
		text string
		line int
	}
	var lines []rawLine
	ln := 0
	for sc.Scan() {
		ln++
		t := strings.TrimSpace(sc.Text())
		if !strings.HasPrefix(t, "//@") {
			continue
		}
		t = strings.TrimSpace(t[3:])
		if t == "" || strings.HasPrefix(t, "#") {
			continue
		}
		if strings.HasPrefix(t, "|") && len(lines) > 0 {
			lines[len(lines)-1].text += " " + strings.TrimSpace(t[1:])
			continue
		}
		lines = append(lines, rawLine{t, ln})
	}
	var cur *Contract
	var curLemma *Lemma
	for _, rl := range lines {
		t := rl.text
		word, rest := splitWord(t)
		switch word {
		case "func", "trusted":
			curLemma = nil
			key, rest2 := splitWord(rest)
			c := &Contract{Key: key, PkgRel: pkgRel, Loops: map[int]*LoopSpec{}, Nilable: map[string]bool{}, File: path, Line: rl.line}
			if strings.HasPrefix(key, "std:") {
				c.Key = strings.TrimPrefix(key, "std:")
			} else if !strings.Contains(key, "/") && !strings.HasPrefix(key, pkgRel+".") {
				// keys are written relative to the file's package: "cutRun" or "Output.Recompute"
				c.Key = pkgRel + "." + key
			}
			c.Trusted = word == "trusted"
			c.Props = strings.Fields(rest2)
			if _, dup := w.contracts[c.Key]; dup {
				return fmt.Errorf("%s:%d: duplicate contract %s", path, rl.line, c.Key)
			}
			w.contracts[c.Key] = c
			cur = c
		case "spec", "opaque":
			cur, curLemma = nil, nil
			sig, body := rest, ""
			if i := strings.Index(rest, " = "); i >= 0 && word == "spec" {
				sig, body = rest[:i], rest[i+3:]
			}
			name, params, res, err := parseSig(sig)
			if err != nil {
				return fmt.Errorf("%s:%d: spec signature: %v", path, rl.line, err)
			}
			sp := &SpecFn{Name: name, PkgRel: pkgRel, Params: params, Result: res, Src: body, File: path, Line: rl.line}
			if body == "" {
				sp.Opaque = true
			} else {
				x, err := parser.ParseExpr(body)
				if err != nil {
					return fmt.Errorf("%s:%d: spec body: %v", path, rl.line, err)
				}
				sp.Body = x
			}
			w.specs[pkgRel+"."+name] = sp
		case "lemma":
			cur = nil
			// lemma name(params) [props]
			i := strings.LastIndex(rest, ")")
			if i < 0 {
				return fmt.Errorf("%s:%d: lemma needs parameter list", path, rl.line)
			}
			name, params, _, err := parseSig(rest[:i+1])
			if err != nil {
				return fmt.Errorf("%s:%d: lemma signature: %v", path, rl.line, err)
			}
			curLemma = &Lemma{Name: name, PkgRel: pkgRel, Params: params, Props: strings.Fields(rest[i+1:]), File: path, Line: rl.line, Mode: ModeInt}
			w.lemmas = append(w.lemmas, curLemma)
		case "data":
			cur, curLemma = nil, nil
			// data name [props] : expr
			i := strings.Index(rest, ":")
			if i < 0 {
				return fmt.Errorf("%s:%d: data needs ':'", path, rl.line)
			}
			head := strings.Fields(rest[:i])
			cl, err := parseClause(strings.TrimSpace(rest[i+1:]), path, rl.line)
			if err != nil {
				return err
			}
			w.datas = append(w.datas, &DataInv{Name: head[0], PkgRel: pkgRel, Expr: cl, Props: head[1:]})
		default:
			if curLemma != nil {
				switch word {
				case "requires", "ensures":
					cl, err := parseClause(rest, path, rl.line)
					if err != nil {
						return err
					}
					if word == "requires" {
						curLemma.Requires = append(curLemma.Requires, cl)
					} else {
						curLemma.Ensures = append(curLemma.Ensures, cl)
					}
				case "induct":
					curLemma.Induct = strings.TrimSpace(rest)
				case "mode":
					if strings.TrimSpace(rest) == "bv" {
						curLemma.Mode = ModeBV
					}
				default:
					return fmt.Errorf("%s:%d: unknown lemma clause %q", path, rl.line, word)
				}
				continue
			}
			if cur == nil {
				return fmt.Errorf("%s:%d: clause %q outside a contract", path, rl.line, word)
			}
			switch word {
			case "mode":
				cur.ModeSet = true
				switch strings.TrimSpace(rest) {
				case "bv":
					cur.Mode = ModeBV
				case "int":
					cur.Mode = ModeInt
				default:
					return fmt.Errorf("%s:%d: bad mode", path, rl.line)
				}
			case "pure":
				cur.Pure = true
			case "inline":
				cur.Inline = true
			case "may_panic":
				cur.MayPanic = true
			case "params":
				for _, p := range strings.Split(rest, ",") {
					cur.Params = append(cur.Params, strings.TrimSpace(p))
				}
			case "nilable":
				for _, p := range strings.Split(rest, ",") {
					cur.Nilable[strings.TrimSpace(p)] = true
				}
			case "readonly_callback":
				// readonly_callback f: calls through the function-typed parameter f are assumed not to write the heap
				// (a stated assumption about the caller's argument; the result is arbitrary)
				if cur.Callbacks == nil {
					cur.Callbacks = map[string]bool{}
				}
				for _, p := range strings.Split(rest, ",") {
					cur.Callbacks[strings.TrimSpace(p)] = true
				}
			case "requires", "ensures":
				cl, err := parseClause(rest, path, rl.line)
				if err != nil {
					return err
				}
				if word == "requires" {
					cur.Requires = append(cur.Requires, cl)
				} else {
					cur.Ensures = append(cur.Ensures, cl)
				}
			case "modifies":
				cur.ModSet = true
				if strings.TrimSpace(rest) == "nothing" {
					break
				}
				if strings.TrimSpace(rest) == "unspecified" {
					cur.ModAny = true
					break
				}
				for _, d := range splitTop(rest, ';') {
					cl, err := parseClause(strings.TrimSpace(d), path, rl.line)
					if err != nil {
						return err
					}
					cur.Modifies = append(cur.Modifies, cl)
				}
			case "loop":
				ks, rest2 := splitWord(rest)
				k, err := strconv.Atoi(ks)
				if err != nil {
					return fmt.Errorf("%s:%d: loop ordinal: %v", path, rl.line, err)
				}
				what, rest3 := splitWord(rest2)
				ls := cur.Loops[k]
				if ls == nil {
					ls = &LoopSpec{}
					cur.Loops[k] = ls
				}
				cl, err := parseClause(rest3, path, rl.line)
				if err != nil {
					return err
				}
				switch what {
				case "invariant":
					ls.Invariants = append(ls.Invariants, cl)
				case "decreases":
					ls.Decreases = &cl
				default:
					return fmt.Errorf("%s:%d: loop clause %q", path, rl.line, what)
				}
			case "assert_at":
				// assert_at call <callee>#n : expr   |  assert_at return : expr
				i := strings.Index(rest, ":")
				if i < 0 {
					return fmt.Errorf("%s:%d: assert_at needs ':'", path, rl.line)
				}
				head := strings.Fields(rest[:i])
				cl, err := parseClause(strings.TrimSpace(rest[i+1:]), path, rl.line)
				if err != nil {
					return err
				}
				aa := AssertAt{Clause: cl}
				if len(head) == 2 && head[0] == "call" {
					parts := strings.Split(head[1], "#")
					aa.Callee = parts[0]
					aa.N = 1
					if len(parts) == 2 {
						aa.N, _ = strconv.Atoi(parts[1])
					}
				} else {
					return fmt.Errorf("%s:%d: bad assert_at head", path, rl.line)
				}
				cur.Asserts = append(cur.Asserts, aa)
			default:
				return fmt.Errorf("%s:%d: unknown clause %q", path, rl.line, word)
			}
		}
	}
	return nil
}

func splitWord(s string) (string, string) {
	s = strings.TrimSpace(s)
	i := strings.IndexAny(s, " \t")
	if i < 0 {
		return s, ""
	}
	return s[:i], strings.TrimSpace(s[i+1:])
}

// splitTop splits on sep at paren depth 0.
func splitTop(s string, sep byte) []string {
	var out []string
	depth := 0
	last := 0
	for i := 0; i < len(s); i++ {
		switch s[i] {
		case '(', '[', '{':
			depth++
		case ')', ']', '}':
			depth--
		default:
			if s[i] == sep && depth == 0 {
				out = append(out, s[last:i])
				last = i + 1
			}
		}
	}
	out = append(out, s[last:])
	return out
}

// resolveType resolves a type expression in the scope of pkg (including its imports by name).
func resolveType(x ast.Expr, pkg *types.Package) (types.Type, error) {
	switch t := x.(type) {
	case *ast.Ident:
		if t.Name == "region" {
			return types.Typ[types.UnsafePointer], nil // identity of a heap region (sort Int in both modes)
		}
		if o := types.Universe.Lookup(t.Name); o != nil {
			if tn, ok := o.(*types.TypeName); ok {
				return tn.Type(), nil
			}
		}
		if o := pkg.Scope().Lookup(t.Name); o != nil {
			if tn, ok := o.(*types.TypeName); ok {
				return tn.Type(), nil
			}
		}
		return nil, fmt.Errorf("unknown type %s", t.Name)
	case *ast.SelectorExpr:
		id, ok := t.X.(*ast.Ident)
		if !ok {
			return nil, fmt.Errorf("bad qualified type")
		}
		if ip := findImport(pkg, id.Name); ip != nil {
			if o := ip.Scope().Lookup(t.Sel.Name); o != nil {
				if tn, ok := o.(*types.TypeName); ok {
					return tn.Type(), nil
				}
			}
		}
		return nil, fmt.Errorf("unknown type %s.%s", id.Name, t.Sel.Name)
	case *ast.ArrayType:
		el, err := resolveType(t.Elt, pkg)
		if err != nil {
			return nil, err
		}
		if t.Len == nil {
			return types.NewSlice(el), nil
		}
		if bl, ok := t.Len.(*ast.BasicLit); ok {
			n, _ := strconv.Atoi(bl.Value)
			return types.NewArray(el, int64(n)), nil
		}
		if id, ok := t.Len.(*ast.Ident); ok {
			if c, ok := pkg.Scope().Lookup(id.Name).(*types.Const); ok {
				if n, ok := constant.Int64Val(c.Val()); ok {
					return types.NewArray(el, n), nil
				}
			}
		}
		return nil, fmt.Errorf("array length")
	case *ast.StarExpr:
		el, err := resolveType(t.X, pkg)
		if err != nil {
			return nil, err
		}
		return types.NewPointer(el), nil
	case *ast.ParenExpr:
		return resolveType(t.X, pkg)
	}
	return nil, fmt.Errorf("unsupported type expression %T", x)
}

// importAliases: per package path, file-level import aliases (alias -> import path), filled at load time.
var importAliases = map[string]map[string]string{}

func findImport(pkg *types.Package, name string) *types.Package {
	for _, ip := range pkg.Imports() {
		if ip.Name() == name {
			return ip
		}
	}
	if path, ok := importAliases[pkg.Path()][name]; ok {
		for _, ip := range pkg.Imports() {
			if ip.Path() == path {
				return ip
			}
		}
	}
	// search transitively one level (types used but not imported directly)
	for _, ip := range pkg.Imports() {
		for _, jp := range ip.Imports() {
			if jp.Name() == name {
				return jp
			}
		}
	}
	return nil
}
