package main

import (
	"fmt"
	"time"
	"go/ast"
	"go/types"
	"runtime/debug"
	"strings"

	"golang.org/x/tools/go/ssa"
)

// FuncResult is the outcome of generating VCs for one function.
type FuncResult struct {
	Key        string
	Mode       string
	Obls       []*Oblig
	Err        string // outside-subset / engine error
	Unmodelled []string
	Notes      []string
	Engine     *Engine
	Props      []string
	Sweep      bool
}

func (e *Engine) mergeReturns(fr *Frame) (*State, []Val) {
	if len(fr.rets) == 0 {
		return nil, nil
	}
	if len(fr.rets) == 1 {
		return fr.rets[0].st, fr.rets[0].vals
	}
	var ins []edgeIn
	for _, r := range fr.rets {
		ins = append(ins, edgeIn{nil, r.st})
	}
	m := e.mergeStates("ret", ins)
	var vals []Val
	for k := range fr.rets[0].vals {
		same := true
		for _, r := range fr.rets[1:] {
			if !valSame(r.vals[k], fr.rets[0].vals[k]) {
				same = false
			}
		}
		if same {
			vals = append(vals, fr.rets[0].vals[k])
			continue
		}
		nv := e.freshLike(fr.rets[0].vals[k], "ret")
		for _, r := range fr.rets {
			e.assume(Implies(r.st.guard, e.valEq(nv, r.vals[k])))
		}
		vals = append(vals, nv)
	}
	return m, vals
}

func (w *World) verifyFunc(fn *ssa.Function, ct *Contract, mode Mode) (res *FuncResult) {
	e := newEngine(w, fn, ct, mode)
	termBytes = 0
	if w.sweep {
		e.deadline = time.Now().Add(20 * time.Second)
		termBudget = 300 << 20
	} else {
		e.deadline = time.Now().Add(120 * time.Second)
		termBudget = 2 << 30
	}
	res = &FuncResult{Key: e.key, Mode: mode.String(), Engine: e, Sweep: w.sweep}
	if ct != nil {
		res.Props = ct.Props
	}
	defer func() {
		if r := recover(); r != nil {
			switch x := r.(type) {
			case unsupported:
				res.Err = "outside-subset: " + x.msg
			case evalError:
				res.Err = "contract-error: " + x.msg
			default:
				res.Err = fmt.Sprintf("engine-error: %v\n%s", r, shortStack(debug.Stack()))
			}
		}
		res.Obls = e.obls
		res.Unmodelled = sortedKeys(e.unmod)
		res.Notes = e.notes
	}()
	if fn.Blocks == nil {
		res.Err = "no body"
		return
	}
	st := &State{cells: map[*ssa.Alloc]*Cell{}, heap: map[string]Term{}, guard: TTrue}
	st.alloc = e.declare("alloc0", e.rs())
	e.assume(And(e.ridLt(e.ridLit(maxGlobals), st.alloc), e.ridLt(st.alloc, e.ridLit(1<<40))))
	fr := e.newFrame(fn, true)
	e.top = fr
	for _, p := range fn.Params {
		v := e.freshVal(p.Type(), "in."+p.Name())
		e.assume(e.wfVal(v, st.alloc))
		if pv, ok := v.(PtrV); ok {
			nilable := ct != nil && ct.Nilable[p.Name()]
			isRecv := fn.Signature.Recv() != nil && len(fr.args) == 0
			if (ct != nil && !nilable && !w.sweep) || (w.sweep && isRecv) {
				e.assume(Not(Eq(pv.Rid, e.ridLit(0))))
				pv.NonNil = true
				v = pv
			}
		}
		fr.regs[p] = v
		fr.args = append(fr.args, v)
		for i, t := range dynTerms(v) {
			e.inputs = append(e.inputs, NamedTerm{fmt.Sprintf("%s#%d", p.Name(), i), t})
		}
	}
	// captured variables of a function literal verified on its own: go/ssa captures by reference, so each free
	// variable is a non-nil pointer to an unknown (well-formed) heap location
	for _, fv := range fn.FreeVars {
		v := e.freshVal(fv.Type(), "freevar."+fv.Name())
		e.assume(e.wfVal(v, st.alloc))
		if pv, ok := v.(PtrV); ok {
			e.assume(Not(Eq(pv.Rid, e.ridLit(0))))
			pv.NonNil = true
			v = pv
		}
		fr.regs[fv] = v
	}
	e.entry = st.clone()
	env := e.envAt(fr, st, fn.Pos())
	if ct != nil {
		var reqs []Term
		for _, c := range ct.Requires {
			t := e.evalClause(env, c)
			reqs = append(reqs, t)
			e.assume(t)
		}
		if len(reqs) > 0 {
			o := e.oblige("requires-sat", "requires-sat", TTrue, And(reqs...), fn.Pos())
			o.WantSat = true
		}
		for _, d := range ct.Modifies {
			n := *env
			n.cl = &d
			e.modLocs = append(e.modLocs, n.designator(d.Expr)...)
		}
		if ct.Pure {
			// decided by a scan of the SSA body (no calls, reads only arguments, locals and never-written tables)
			ok, why := w.pureScan(fn)
			goal := TTrue
			if !ok {
				goal = TFalse
				e.note("not pure: %s", why)
			}
			e.oblige("pure", "pure[function-of-its-arguments]", TTrue, goal, fn.Pos())
		}
	}
	e.entry = st.clone()
	e.runBlocks(fr, fr.rpo, fn.Blocks[0], st, nil)
	exit, vals := e.mergeReturns(fr)
	if exit == nil {
		e.note("function never returns normally")
		return
	}
	e.exit, e.exitVals = exit, vals
	if ct != nil {
		// a reassigned parameter has different values at entry (call sites see that one) and at return
		for _, p := range fn.Params {
			if !paramReassigned(fn, p) {
				continue
			}
			for _, c := range ct.Ensures {
				if mentionsIdent(c.Expr, p.Name()) {
					panic(evalError{fmt.Sprintf("%s:%d: parameter %s is reassigned in the body; write %s0 (entry value) in ensures", strings.TrimPrefix(c.File, "/repo/"), c.Line, p.Name(), p.Name())})
				}
			}
		}
		penv := e.envAt(fr, exit, fn.Pos())
		var rt types.Type = fn.Signature.Results()
		bindResults(penv, packResults(vals, rt), fn, fn.Signature)
		for i, c := range ct.Ensures {
			if strings.HasPrefix(c.Label, "ghost-") {
				// ghost token: an uninterpreted predicate that is DEFINED as "the state this function leaves";
				// nothing to prove here, callers receive it (listed as an assumption in the evidence)
				e.note("ensures[%s] is a ghost token: assumed at call sites, not proved", c.Label)
				continue
			}
			goal := e.evalClause(penv, c)
			e.oblige("ensures", fmt.Sprintf("ensures[%s]", clauseName(c, i)), exit.guard, goal, fn.Pos())
		}
		if !w.sweep && !ct.ModAny {
			for _, k := range sortedHeapKeys(exit.heap) {
				if strings.HasPrefix(k, "map:") {
					continue
				}
				full := exit.heap[k].Sort
				f := e.frameFormula(exit, k, arrElemSort(arrElemSort(full)), false)
				if f.S == "true" {
					continue
				}
				e.oblige("modifies", fmt.Sprintf("modifies[%s]", shortKey(k)), exit.guard, f, fn.Pos())
			}
		}
	}
	return
}

func sortedHeapKeys(m map[string]Term) []string {
	ks := map[string]bool{}
	for k := range m {
		ks[k] = true
	}
	return sortedKeys(ks)
}

func shortStack(b []byte) string {
	ls := strings.Split(string(b), "\n")
	var out []string
	for _, l := range ls {
		if strings.Contains(l, "/verif/govc/") {
			out = append(out, strings.TrimSpace(l))
		}
		if len(out) >= 8 {
			break
		}
	}
	return strings.Join(out, "\n")
}

func paramReassigned(fn *ssa.Function, p *ssa.Parameter) bool {
	for _, b := range fn.Blocks {
		for _, in := range b.Instrs {
			st, ok := in.(*ssa.Store)
			if !ok {
				continue
			}
			a, ok := st.Addr.(*ssa.Alloc)
			if !ok || a.Comment != p.Name() || a.Pos() != p.Pos() {
				continue
			}
			if st.Val != ssa.Value(p) {
				return true
			}
		}
	}
	return false
}

func mentionsIdent(x ast.Expr, name string) bool {
	found := false
	ast.Inspect(x, func(n ast.Node) bool {
		if id, ok := n.(*ast.Ident); ok && id.Name == name {
			found = true
		}
		return true
	})
	return found
}
