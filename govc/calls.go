package main

import (
	"fmt"
	"go/token"
	"go/types"
	"strings"

	"golang.org/x/tools/go/ssa"
)

const maxInlineDepth = 4
const maxInlineInstrs = 400

// call executes a call; returns the result value (nil for no result) and whether execution continues.
func (e *Engine) call(fr *Frame, st *State, c *ssa.CallCommon, instr *ssa.Call, pos token.Pos) (Val, bool) {
	var rt types.Type
	if instr != nil {
		rt = instr.Type()
	} else {
		rt = c.Signature().Results()
	}
	if c.IsInvoke() {
		recv := fr.get(e, c.Value)
		var args []Val
		args = append(args, recv)
		for _, a := range c.Args {
			args = append(args, fr.get(e, a))
		}
		// interface method contract: "<pkgrel>.<Iface>.<Method>"
		if nt, ok := types.Unalias(c.Value.Type()).(*types.Named); ok && nt.Obj().Pkg() != nil {
			key := strings.TrimPrefix(nt.Obj().Pkg().Path(), modPrefix) + "." + nt.Obj().Name() + "." + c.Method.Name()
			if ct := e.w.contracts[key]; ct != nil {
				return e.callContract(fr, st, nil, ct, key, args, c.Method.Type().(*types.Signature), rt, pos, true), true
			}
		}
		// statically known dynamic type?
		if dv, ok := fr.ifaceOf[c.Value]; ok {
			if fn := e.w.prog.LookupMethod(dv.GoType(), c.Method.Pkg(), c.Method.Name()); fn != nil {
				args[0] = dv
				return e.callStatic(fr, st, fn, args, rt, pos)
			}
		}
		e.unknownCall(st, "invoke "+c.Method.FullName())
		return e.unknownResult(st, rt), true
	}
	if b, ok := c.Value.(*ssa.Builtin); ok {
		var args []Val
		for _, a := range c.Args {
			args = append(args, fr.get(e, a))
		}
		return e.builtin(fr, st, b, args, c.Args, rt, pos)
	}
	var args []Val
	for _, a := range c.Args {
		args = append(args, fr.get(e, a))
	}
	callee := c.StaticCallee()
	if callee == nil {
		// closure called through a local variable?
		if s, ok := fr.get(e, c.Value).(Scalar); ok {
			if mc := e.closures[s.T.S]; mc != nil {
				fn := mc.Fn.(*ssa.Function)
				return e.inlineClosure(fr, st, fn, mc, args, rt, pos)
			}
		}
		if pr, ok := c.Value.(*ssa.Parameter); ok && fr.top && e.contract != nil && e.contract.Callbacks[pr.Name()] {
			e.note("calls through parameter %s are assumed not to write the heap (readonly_callback)", pr.Name())
			return e.unknownResult(st, rt), true
		}
		e.unknownCall(st, "dynamic call")
		return e.unknownResult(st, rt), true
	}
	if mc, ok := c.Value.(*ssa.MakeClosure); ok {
		return e.inlineClosure(fr, st, callee, mc, args, rt, pos)
	}
	return e.callStatic(fr, st, callee, args, rt, pos)
}

func (e *Engine) callStatic(fr *Frame, st *State, callee *ssa.Function, args []Val, rt types.Type, pos token.Pos) (Val, bool) {
	key := funcKey(callee)
	if ct := e.w.contracts[key]; ct != nil && !ct.Inline {
		return e.callContract(fr, st, callee, ct, key, args, callee.Signature, rt, pos, false), true
	}
	if fr != nil && fr.top && e.contract != nil && len(e.contract.Asserts) > 0 && e.quiet == 0 {
		// assert_at may also name a call that is inlined or modelled
		short := key
		if i := strings.LastIndex(key, "/"); i >= 0 {
			short = key[i+1:]
		}
		e.ghostAsserts(fr, st, short, e.ordinal("call "+short), pos, args)
	}
	if v, ok := e.stdModel(st, key, args, rt); ok {
		return v, true
	}
	if e.canInline(callee) {
		return e.inline(fr, st, callee, args, rt, pos)
	}
	e.unknownCall(st, "call "+key)
	return e.unknownResult(st, rt), true
}

func (e *Engine) canInline(fn *ssa.Function) bool {
	if fn.Blocks == nil || e.inlineDepth >= maxInlineDepth {
		return false
	}
	if fn.Pkg == nil || !strings.HasPrefix(fn.Pkg.Pkg.Path(), strings.TrimSuffix(modPrefix, "/")) {
		if !inlinableStd(funcKey(fn)) {
			return false
		}
	}
	for _, a := range e.inlineStack {
		if a == fn {
			return false
		}
	}
	n := 0
	for _, b := range fn.Blocks {
		n += len(b.Instrs)
		for _, s := range b.Succs {
			if s.Dominates(b) {
				return false // loops need invariants
			}
		}
	}
	return n <= maxInlineInstrs
}

// inline executes the callee's body in the current state.
func (e *Engine) inline(fr *Frame, st *State, callee *ssa.Function, args []Val, rt types.Type, pos token.Pos) (Val, bool) {
	sub := e.newFrame(callee, false)
	sub.depth = fr.depth + 1
	for i, p := range callee.Params {
		sub.regs[p] = args[i]
	}
	e.inlineDepth++
	e.inlineStack = append(e.inlineStack, callee)
	saved := e.key
	defer func() {
		e.inlineDepth--
		e.inlineStack = e.inlineStack[:len(e.inlineStack)-1]
	}()
	_ = saved
	entry := st.clone()
	e.runBlocks(sub, sub.rpo, callee.Blocks[0], entry, nil)
	if len(sub.rets) == 0 {
		// never returns
		st.guard = TFalse
		return e.unknownResult(st, rt), false
	}
	// merge return points into st
	var ins []edgeIn
	for _, r := range sub.rets {
		ins = append(ins, edgeIn{nil, r.st})
	}
	var res Val
	if len(ins) == 1 {
		*st = *ins[0].st
		res = packResults(sub.rets[0].vals, rt)
	} else {
		m := e.mergeStates(callee.Name()+".ret", ins)
		*st = *m
		nres := len(sub.rets[0].vals)
		var vals []Val
		for k := 0; k < nres; k++ {
			same := true
			for _, r := range sub.rets[1:] {
				if !valSame(r.vals[k], sub.rets[0].vals[k]) {
					same = false
				}
			}
			if same {
				vals = append(vals, sub.rets[0].vals[k])
				continue
			}
			if e.iteMerge {
				var gs []Term
				var vs []Val
				for _, r := range sub.rets {
					gs = append(gs, r.st.guard)
					vs = append(vs, r.vals[k])
				}
				vals = append(vals, e.iteVals(gs, vs))
				continue
			}
			rep := sub.rets[0].vals[k]
			for _, r := range sub.rets {
				if p, ok := r.vals[k].(PtrV); ok && !isNilRid(p.Rid) {
					rep = r.vals[k]
				}
			}
			nv := e.freshLike(rep, "ret."+callee.Name())
			if p, ok := nv.(PtrV); ok {
				p.NonNil = false
				nv = p
			}
			for _, r := range sub.rets {
				e.assume(Implies(r.st.guard, e.valEq(nv, r.vals[k])))
			}
			vals = append(vals, nv)
		}
		res = packResults(vals, rt)
	}
	return res, true
}

func packResults(vals []Val, rt types.Type) Val {
	switch len(vals) {
	case 0:
		return nil
	case 1:
		return vals[0]
	}
	return TupleV{Ty: rt, Vs: vals}
}

// mergeStates merges states without block context (used for inlined returns).
func (e *Engine) mergeStates(hint string, ins []edgeIn) *State {
	fake := &Frame{regs: map[ssa.Value]Val{}, fn: e.fn}
	return e.merge(fake, &ssa.BasicBlock{Index: -1}, ins)
}

func (e *Engine) inlineClosure(fr *Frame, st *State, fn *ssa.Function, mc *ssa.MakeClosure, args []Val, rt types.Type, pos token.Pos) (Val, bool) {
	if !e.canInlineClosure(fn) {
		e.unknownCall(st, "closure "+fn.Name())
		return e.unknownResult(st, rt), true
	}
	sub := e.newFrame(fn, false)
	for i, p := range fn.Params {
		sub.regs[p] = args[i]
	}
	for i, fv := range fn.FreeVars {
		sub.regs[fv] = fr.get(e, mc.Bindings[i])
	}
	e.inlineDepth++
	e.inlineStack = append(e.inlineStack, fn)
	defer func() {
		e.inlineDepth--
		e.inlineStack = e.inlineStack[:len(e.inlineStack)-1]
	}()
	entry := st.clone()
	e.runBlocks(sub, sub.rpo, fn.Blocks[0], entry, nil)
	if len(sub.rets) == 0 {
		st.guard = TFalse
		return e.unknownResult(st, rt), false
	}
	var ins []edgeIn
	for _, r := range sub.rets {
		ins = append(ins, edgeIn{nil, r.st})
	}
	if len(ins) == 1 {
		*st = *ins[0].st
		return packResults(sub.rets[0].vals, rt), true
	}
	m := e.mergeStates(fn.Name()+".ret", ins)
	*st = *m
	var vals []Val
	for k := range sub.rets[0].vals {
		nv := e.freshLike(sub.rets[0].vals[k], "ret."+fn.Name())
		for _, r := range sub.rets {
			e.assume(Implies(r.st.guard, e.valEq(nv, r.vals[k])))
		}
		vals = append(vals, nv)
	}
	return packResults(vals, rt), true
}

func (e *Engine) canInlineClosure(fn *ssa.Function) bool {
	if fn.Blocks == nil || e.inlineDepth >= maxInlineDepth {
		return false
	}
	for _, b := range fn.Blocks {
		for _, s := range b.Succs {
			if s.Dominates(b) {
				return false
			}
		}
	}
	return true
}

// unknownCall havocs the whole heap (sound over-approximation of an unmodelled callee).
func (e *Engine) unknownCall(st *State, what string) {
	if e.quiet == 0 {
		e.unmod[what] = true
	}
	for _, k := range sortedHeapKeys(st.heap) {
		st.heap[k] = e.fresh(st.heap[k].Sort, "havocM:"+k)
	}
	e.nbase++
	st.base = fmt.Sprintf("M%d:", e.nbase)
	na := e.fresh(e.rs(), "alloc")
	e.assume(e.ridLe(st.alloc, na))
	st.alloc = na
}


func (e *Engine) unknownResult(st *State, rt types.Type) Val {
	if rt == nil {
		return nil
	}
	if tt, ok := rt.(*types.Tuple); ok {
		if tt.Len() == 0 {
			return nil
		}
		if tt.Len() == 1 {
			return e.freshWF(st, tt.At(0).Type(), "res")
		}
	}
	return e.freshWF(st, rt, "res")
}

// ---------------------------------------------------------------- builtins

func (e *Engine) builtin(fr *Frame, st *State, b *ssa.Builtin, args []Val, argVals []ssa.Value, rt types.Type, pos token.Pos) (Val, bool) {
	a := e.ar
	intT := types.Typ[types.Int]
	if b.Name() == "copy" || b.Name() == "append" {
		// ghost assertions may be attached to these builtins (assert_at call copy#n : ...)
		if fr.top && e.contract != nil && len(e.contract.Asserts) > 0 && e.quiet == 0 {
			e.ghostAsserts(fr, st, b.Name(), e.ordinal("call "+b.Name()), pos, args)
		}
	}
	switch b.Name() {
	case "ssa:deferstack":
		return Scalar{e.ridLit(0), rt}, true
	case "len":
		switch x := args[0].(type) {
		case SliceV:
			return Scalar{x.Len, intT}, true
		case Scalar:
			if isString(x.Ty) {
				return Scalar{e.strlen(x.T), intT}, true
			}
			// map / chan
			if _, isMap := x.Ty.Underlying().(*types.Map); isMap {
				n := Select(e.mapLenGet(st, x.Ty), x.T)
				e.assume(Implies(st.guard, a.idxLe(a.idxLit(0), n)))
				return Scalar{Ite(Eq(x.T, e.ridLit(0)), a.idxLit(0), n), intT}, true
			}
			n := e.fresh(a.idxSort(), "chanlen")
			e.assume(a.idxLe(a.idxLit(0), n))
			return Scalar{n, intT}, true
		case ArrayV:
			return Scalar{a.idxLit(x.Ty.Underlying().(*types.Array).Len()), intT}, true
		case PtrV:
			if at, ok := x.Ty.Underlying().(*types.Pointer).Elem().Underlying().(*types.Array); ok {
				return Scalar{a.idxLit(at.Len()), intT}, true
			}
		}
	case "cap":
		switch x := args[0].(type) {
		case SliceV:
			return Scalar{x.Cap, intT}, true
		case ArrayV:
			return Scalar{a.idxLit(x.Ty.Underlying().(*types.Array).Len()), intT}, true
		}
	case "append":
		s, ok := args[0].(SliceV)
		if !ok {
			unsupp("append to %T", args[0])
		}
		if len(args) == 1 {
			return s, true
		}
		switch t := args[1].(type) {
		case SliceV:
			// append(s, x): the variadic argument is a fresh one-element array (SSA "varargs"): store the element directly
			if len(argVals) == 2 {
				if sl, ok := argVals[1].(*ssa.Slice); ok {
					if al, ok := sl.X.(*ssa.Alloc); ok && al.Comment == "varargs" {
						if at, ok := al.Type().(*types.Pointer).Elem().Underlying().(*types.Array); ok && at.Len() == 1 && sl.Low == nil && sl.High == nil {
							el := s.Ty.Underlying().(*types.Slice).Elem()
							p := PtrV{Ty: types.NewPointer(el), Rid: t.Rid, Idx: t.Off, Root: el, NonNil: true}
							e.quiet++
							v := e.load(st, p, pos)
							e.quiet--
							return e.appendOne(st, s, v), true
						}
					}
				}
			}
			return e.appendSlice(st, s, t, rt), true
		case Scalar:
			if isString(t.Ty) {
				unsupp("append(bytes, string...)")
			}
		}
	case "copy":
		d, ok := args[0].(SliceV)
		if !ok {
			unsupp("copy to %T", args[0])
		}
		switch s := args[1].(type) {
		case SliceV:
			return e.copySlice(st, d, s), true
		case Scalar:
			// copy from string: havoc destination prefix
			n := e.fresh(a.idxSort(), "copyn")
			sl := e.strlen(s.T)
			e.assume(Implies(st.guard, Eq(n, Ite(a.idxLt(d.Len, sl), d.Len, sl))))
			e.havocRange(st, d.Ty.Underlying().(*types.Slice).Elem(), d.Rid, d.Off, a.idxAdd(d.Off, n))
			return Scalar{n, intT}, true
		}
	case "delete":
		e.note("delete on map modelled as havoc of the map")
		if m, ok := args[0].(Scalar); ok {
			e.mapHavoc(st, m)
		}
		return nil, true
	case "print", "println":
		return nil, true
	case "min", "max":
		x, y := args[0].(Scalar), args[1].(Scalar)
		op := token.LSS
		if b.Name() == "max" {
			op = token.GTR
		}
		c, _ := a.BinOp(op, x.T, y.T, x.Ty, y.Ty)
		return Scalar{Ite(c, x.T, y.T), x.Ty}, true
	case "recover":
		return Scalar{e.ridLit(0), rt}, true
	case "ssa:wrapnilchk":
		return args[0], true
	case "clear":
		unsupp("clear")
	}
	unsupp("builtin %s on %T", b.Name(), args[0])
	return nil, true
}

// appendSlice models append(s, t...) where t's elements are in the heap.
// Ghost layout choice: when append reallocates, the new region keeps the slice's offset and is a copy of the old
// region's cells (cells outside [off, off+len) are unreachable through the new slice, so this is unobservable);
// the result is then "old region contents with the appended elements stored", in place or in a fresh region.
func (e *Engine) appendSlice(st *State, s, t SliceV, rt types.Type) Val {
	a := e.ar
	el := s.Ty.Underlying().(*types.Slice).Elem()
	newLen := a.idxAdd(s.Len, t.Len)
	inplace := a.idxLe(newLen, s.Cap)
	g := st.guard
	nfresh := st.alloc
	st.alloc = e.ridNext(st.alloc)
	res := SliceV{Ty: s.Ty, Rid: e.fresh(e.rs(), "app.rid"), Off: s.Off, Len: newLen, Cap: e.fresh(a.idxSort(), "app.cap")}
	e.assume(Implies(g, Ite(inplace,
		And(Eq(res.Rid, s.Rid), Eq(res.Cap, s.Cap)),
		And(Eq(res.Rid, nfresh), a.idxLe(newLen, res.Cap), a.idxLe(res.Cap, a.idxLit(1<<41))))))
	for _, sl := range e.slots(el) {
		key := heapKey(el, sl.Path)
		m := e.heapGet(st, key, sl.Sort)
		as := SArr(a.idxSort(), sl.Sort)
		inner := e.fresh(as, "app.data")
		i := Term{"i!q", a.idxSort()}
		lo := a.idxAdd(s.Off, s.Len)
		inNew := And(a.idxLe(lo, i), a.idxLt(i, a.idxAdd(s.Off, newLen)))
		srcNew := Select(Select(m, t.Rid), a.idxAdd(t.Off, a.idxSub(i, lo)))
		body := Ite(inNew, Eq(Select(inner, i), srcNew), Eq(Select(inner, i), Select(Select(m, s.Rid), i)))
		e.assume(Implies(g, Forall([]Term{i}, body, []Term{Select(inner, i)})))
		st.heap[key] = Store(m, res.Rid, inner)
	}
	return res
}

// appendOne models append(s, v) without quantifiers (same ghost layout choice as appendSlice).
func (e *Engine) appendOne(st *State, s SliceV, v Val) Val {
	a := e.ar
	el := s.Ty.Underlying().(*types.Slice).Elem()
	newLen := a.idxAdd(s.Len, a.idxLit(1))
	inplace := a.idxLe(newLen, s.Cap)
	g := st.guard
	nfresh := st.alloc
	st.alloc = e.ridNext(st.alloc)
	res := SliceV{Ty: s.Ty, Rid: e.fresh(e.rs(), "app.rid"), Off: s.Off, Len: newLen, Cap: e.fresh(a.idxSort(), "app.cap")}
	e.assume(Implies(g, Ite(inplace,
		And(Eq(res.Rid, s.Rid), Eq(res.Cap, s.Cap)),
		And(Eq(res.Rid, nfresh), a.idxLe(newLen, res.Cap), a.idxLe(res.Cap, a.idxLit(1<<41))))))
	terms := e.flatten(v)
	for si, sl := range e.slots(el) {
		key := heapKey(el, sl.Path)
		m := e.heapGet(st, key, sl.Sort)
		st.heap[key] = Store(m, res.Rid, Store(Select(m, s.Rid), a.idxAdd(s.Off, s.Len), terms[si]))
	}
	return res
}

func (e *Engine) copySlice(st *State, d, s SliceV) Val {
	a := e.ar
	el := d.Ty.Underlying().(*types.Slice).Elem()
	n := Ite(a.idxLt(d.Len, s.Len), d.Len, s.Len)
	nn := e.fresh(a.idxSort(), "copyn")
	e.assume(Implies(st.guard, Eq(nn, n)))
	for _, sl := range e.slots(el) {
		key := heapKey(el, sl.Path)
		m := e.heapGet(st, key, sl.Sort)
		as := SArr(a.idxSort(), sl.Sort)
		inner := e.fresh(as, "copy.data")
		i := Term{"i!q", a.idxSort()}
		in := And(a.idxLe(d.Off, i), a.idxLt(i, a.idxAdd(d.Off, nn)))
		body := Ite(in,
			Eq(Select(inner, i), Select(Select(m, s.Rid), a.idxAdd(s.Off, a.idxSub(i, d.Off)))),
			Eq(Select(inner, i), Select(Select(m, d.Rid), i)))
		e.assume(Implies(st.guard, Forall([]Term{i}, body, []Term{Select(inner, i)})))
		st.heap[key] = Store(m, d.Rid, inner)
	}
	return Scalar{nn, types.Typ[types.Int]}
}

// havocRange makes elements [lo,hi) (absolute indices) of region rid arbitrary.
func (e *Engine) havocRange(st *State, el types.Type, rid, lo, hi Term) {
	a := e.ar
	for _, sl := range e.slots(el) {
		key := heapKey(el, sl.Path)
		e.havocKeyRange(st, key, sl.Sort, rid, lo, hi)
	}
	_ = a
}

func (e *Engine) havocKeyRange(st *State, key string, slot Sort, rid, lo, hi Term) {
	a := e.ar
	m := e.heapGet(st, key, slot)
	as := SArr(a.idxSort(), slot)
	inner := e.fresh(as, "havoc.data")
	i := Term{"i!q", a.idxSort()}
	e.assume(Implies(st.guard, Forall([]Term{i}, Implies(Or(a.idxLt(i, lo), a.idxLe(hi, i)),
		Eq(Select(inner, i), Select(Select(m, rid), i))), []Term{Select(inner, i)})))
	st.heap[key] = Store(m, rid, inner)
}

// ---------------------------------------------------------------- maps (abstract)

func mapKeys(mt types.Type) (string, string) {
	k := "map:" + typeKey(mt)
	return k + "|has", k + "|val"
}

func (e *Engine) mapSorts(mt *types.Map) (Sort, bool) {
	ks := e.ar.scalarSortOrEmpty(mt.Key())
	if ks == "" {
		if _, ok := pairKeyElem(mt.Key()); ok {
			return e.ar.idxSort(), true
		}
	}
	return ks, ks != ""
}

// pairKeyElem: map keys of type [2]T with T an integer type of at most 32 bits are packed injectively into one
// 64-bit key (first element in the high half).
func pairKeyElem(t types.Type) (types.Type, bool) {
	a, ok := t.Underlying().(*types.Array)
	if !ok || a.Len() != 2 {
		return nil, false
	}
	w, _, isInt := intInfo(a.Elem())
	if !isInt || w > 32 {
		return nil, false
	}
	return a.Elem(), true
}

// mapKeyTerm: the SMT key for a Go map key value.
func (e *Engine) mapKeyTerm(mt *types.Map, v Val) Term {
	et, ok := pairKeyElem(mt.Key())
	if !ok {
		return e.scalar(v)
	}
	av, isArr := v.(ArrayV)
	if !isArr {
		unsupp("pair map key of kind %T", v)
	}
	var a0, a1 Term
	if av.E != nil {
		if len(av.E) != 2 {
			unsupp("pair map key with %d elements", len(av.E))
		}
		a0, a1 = e.scalar(av.E[0]), e.scalar(av.E[1])
	} else {
		a0, a1 = Select(av.A, e.ar.idxLit(0)), Select(av.A, e.ar.idxLit(1))
	}
	w, signed, _ := intInfo(et)
	if e.ar.mode == ModeBV {
		ext := "zero_extend"
		if signed {
			ext = "sign_extend"
		}
		hi := Term{fmt.Sprintf("((_ %s %d) %s)", ext, 32-w, a0.S), SBV(32)}
		lo := Term{fmt.Sprintf("((_ %s %d) %s)", ext, 32-w, a1.S), SBV(32)}
		if w == 32 {
			hi, lo = a0, a1
		}
		return Term{fmt.Sprintf("(concat %s %s)", hi.S, lo.S), SBV(64)}
	}
	// int mode: elements lie in a range of width 2^32, so hi*2^32+lo is injective
	return Term{fmt.Sprintf("(+ (* 4294967296 %s) %s)", a0.S, a1.S), SInt}
}

// mapLenKey: ghost length of maps (exact for new maps, havocked by updates/deletes).
func mapLenKey(mt types.Type) string { return "map:" + typeKey(mt) + "|$len" }

func (e *Engine) mapLenGet(st *State, mt types.Type) Term {
	return e.heapGetRaw(st, mapLenKey(mt), SArr(e.rs(), e.ar.idxSort()))
}

func (e *Engine) mapLenSet(st *State, mt types.Type, h Term, n Term) {
	m := e.mapLenGet(st, mt)
	st.heap[mapLenKey(mt)] = Store(m, h, n)
}

func (e *Engine) mapInitEmpty(st *State, h Term, t types.Type) {
	e.mapLenSet(st, t, h, e.ar.idxLit(0))
	mt := t.Underlying().(*types.Map)
	ks, ok := e.mapSorts(mt)
	if !ok {
		return
	}
	hk, _ := mapKeys(mt)
	hs := SArr(e.rs(), SArr(ks, SBool))
	m := e.heapGetRaw(st, hk, hs)
	st.heap[hk] = Store(m, h, Term{fmt.Sprintf("((as const %s) false)", SArr(ks, SBool)), SArr(ks, SBool)})
}

func (e *Engine) mapHavoc(st *State, m Scalar) {
	mt, ok := m.Ty.Underlying().(*types.Map)
	if !ok {
		return
	}
	{
		nl := e.fresh(e.ar.idxSort(), "maplen")
		e.assume(e.ar.idxLe(e.ar.idxLit(0), nl))
		e.mapLenSet(st, m.Ty, m.T, nl)
	}
	hk, vk := mapKeys(mt)
	for _, k := range sortedHeapKeys(st.heap) {
		if k == hk || strings.HasPrefix(k, vk) {
			st.heap[k] = e.fresh(st.heap[k].Sort, "havocmap")
		}
	}
}

func (e *Engine) mapUpdate(fr *Frame, st *State, x *ssa.MapUpdate) {
	m := fr.get(e, x.Map).(Scalar)
	mt := m.Ty.Underlying().(*types.Map)
	e.oblige("mapwrite-nil", fmt.Sprintf("mapwrite-nil#%d", e.ordinal("mapwrite")), st.guard, Not(Eq(m.T, e.ridLit(0))), x.Pos())
	{
		// the ghost length may grow by one
		old := Select(e.mapLenGet(st, m.Ty), m.T)
		nl := e.fresh(e.ar.idxSort(), "maplen")
		e.assume(Implies(st.guard, And(e.ar.idxLe(old, nl), e.ar.idxLe(nl, e.ar.idxAdd(old, e.ar.idxLit(1))), e.ar.idxLe(e.ar.idxLit(1), nl))))
		e.mapLenSet(st, m.Ty, m.T, nl)
	}
	ks, ok := e.mapSorts(mt)
	if !ok {
		e.note("map with composite key: update modelled as havoc")
		e.mapHavoc(st, m)
		return
	}
	kt := e.mapKeyTerm(mt, fr.get(e, x.Key))
	hk, vk := mapKeys(mt)
	hs := SArr(e.rs(), SArr(ks, SBool))
	hm := e.heapGetRaw(st, hk, hs)
	st.heap[hk] = Store(hm, m.T, Store(Select(hm, m.T), kt, TTrue))
	v := fr.get(e, x.Value)
	terms := e.flatten(v)
	for i, sl := range e.slots(mt.Elem()) {
		key := vk + "." + sl.Path
		vs := SArr(e.rs(), SArr(ks, sl.Sort))
		vm := e.heapGetRaw(st, key, vs)
		st.heap[key] = Store(vm, m.T, Store(Select(vm, m.T), kt, terms[i]))
	}
}

func (e *Engine) lookup(fr *Frame, st *State, x *ssa.Lookup) Val {
	base := fr.get(e, x.X)
	bs, ok := base.(Scalar)
	if !ok {
		unsupp("lookup on %T", base)
	}
	if isString(bs.Ty) {
		i := e.toIdx(fr.get(e, x.Index))
		a := e.ar
		e.oblige("index", fmt.Sprintf("index#%d", e.ordinal("index")), st.guard, And(a.idxLe(a.idxLit(0), i), a.idxLt(i, e.strlen(bs.T))), x.Pos())
		return Scalar{e.strAt(bs.T, i), types.Typ[types.Uint8]}
	}
	mt := bs.Ty.Underlying().(*types.Map)
	ks, okk := e.mapSorts(mt)
	boolT := types.Typ[types.Bool]
	if !okk {
		v := e.freshWF(st, mt.Elem(), "mapval")
		if x.CommaOk {
			return TupleV{Ty: x.Type(), Vs: []Val{v, Scalar{e.fresh(SBool, "mapok"), boolT}}}
		}
		return v
	}
	kt := e.mapKeyTerm(mt, fr.get(e, x.Index))
	hk, vk := mapKeys(mt)
	hm := e.heapGetRaw(st, hk, SArr(e.rs(), SArr(ks, SBool)))
	has := Select(Select(hm, bs.T), kt)
	// nil map has no keys
	has = And(Not(Eq(bs.T, e.ridLit(0))), has)
	zero := e.zeroVal(mt.Elem())
	zt := e.flatten(zero)
	idx := 0
	v := e.build(mt.Elem(), func(sl Slot) Term {
		key := vk + "." + sl.Path
		vm := e.heapGetRaw(st, key, SArr(e.rs(), SArr(ks, sl.Sort)))
		t := Ite(has, Select(Select(vm, bs.T), kt), zt[idx])
		idx++
		return t
	})
	e.assume(Implies(st.guard, e.wfVal(v, st.alloc)))
	if x.CommaOk {
		return TupleV{Ty: x.Type(), Vs: []Val{v, Scalar{has, boolT}}}
	}
	return v
}

// ---------------------------------------------------------------- std models

func (e *Engine) stdModel(st *State, key string, args []Val, rt types.Type) (Val, bool) {
	return nil, false
}

// inlinableStd: dependency functions whose (loop-free) bodies are executed symbolically like repo code.
func inlinableStd(key string) bool {
	for _, p := range []string{"encoding/binary.bigEndian.", "encoding/binary.littleEndian.", "golang.org/x/image/math/fixed."} {
		if strings.HasPrefix(key, p) {
			return true
		}
	}
	return false
}
