package main

import (
	"fmt"
	"time"
	"go/token"
	"go/types"
	"sort"
	"strings"

	"golang.org/x/tools/go/packages"
	"golang.org/x/tools/go/ssa"
)

// World is the loaded program plus all contracts; shared, read-only during runs.
type World struct {
	fset      *token.FileSet
	prog      *ssa.Program
	pkgs      map[string]*packages.Package // by import path
	spkgs     map[string]*ssa.Package
	contracts map[string]*Contract // by function key
	specs     map[string]*SpecFn   // by pkgname.name and bare name within package
	lemmas    []*Lemma
	datas     []*DataInv
	funcs     map[string]*ssa.Function // by key
	globals   map[*ssa.Global]int
	sweep     bool
	inlineStd map[string]bool
	constPtr  map[*ssa.Global]int
	nconstPtr int
}

const modPrefix = "github.com/go-text/typesetting/"

// funcKey gives the contract key of an ssa function: "<pkgrel>.<Func>" or "<pkgrel>.<Type>.<Method>".
func funcKey(fn *ssa.Function) string {
	if fn == nil {
		return "?"
	}
	pkgPath := ""
	if fn.Pkg != nil {
		pkgPath = fn.Pkg.Pkg.Path()
	} else if fn.Object() != nil && fn.Object().Pkg() != nil {
		pkgPath = fn.Object().Pkg().Path()
	}
	rel := strings.TrimPrefix(pkgPath, modPrefix)
	if fn.Parent() != nil {
		return funcKey(fn.Parent()) + "$" + strings.TrimPrefix(fn.Name(), fn.Parent().Name()+"$")
	}
	if fn.Signature.Recv() != nil {
		rt := fn.Signature.Recv().Type()
		if p, ok := rt.(*types.Pointer); ok {
			rt = p.Elem()
		}
		name := rt.String()
		if n, ok := rt.(*types.Named); ok {
			name = n.Obj().Name()
		}
		return rel + "." + name + "." + fn.Name()
	}
	return rel + "." + fn.Name()
}

type Assump struct {
	T   Term
	Tag string // "lemma": proved ghost assertion, may be dropped when discharging other obligations
}

type Oblig struct {
	Name    string
	Kind    string // ensures, requires-sat, loop-init, loop-preserve, loop-cover, call-pre, index, slice, nil, div, shift, overflow, panic, make, modifies, assert, typeassert, lemma, data
	Guard   Term
	Goal    Term
	NDecl   int
	NAssump int
	WantSat bool   // vacuity guards: the query itself must be sat
	Pos     string // source position (informational)
	Fn      string
	// model extraction
	Inputs []NamedTerm
	// filled by solving
	Res *SolveResult
}

type NamedTerm struct {
	Name string
	T    Term
}

// Engine verifies one function (one run = one mode).
type Engine struct {
	w         *World
	ar        *Arith
	fn        *ssa.Function
	key       string
	contract  *Contract
	slotCache map[string][]Slot
	decls     []string
	declName  []string
	declared  map[string]bool
	assumps   []Assump
	obls      []*Oblig
	nfresh    int
	quiet     int
	strConsts map[string]Term
	strOrder  []string
	unmod     map[string]bool
	notes     []string
	counters  map[string]int
	specDone  map[string]*specInst
	inputs    []NamedTerm
	entry     *State
	top       *Frame
	inlineDepth int
	inlineStack []*ssa.Function
	prelude   string
	closures  map[string]*ssa.MakeClosure
	baseParents map[string][]baseParent
	nbase     int
	iteMerge  bool
	modLocs   []Loc
	exit      *State
	exitVals  []Val
	vcBytes   int
	deadline  time.Time
	steps     int
}

func newEngine(w *World, fn *ssa.Function, c *Contract, mode Mode) *Engine {
	e := &Engine{w: w, fn: fn, contract: c, ar: &Arith{mode: mode}}
	e.key = funcKey(fn)
	e.slotCache = map[string][]Slot{}
	e.declared = map[string]bool{}
	e.strConsts = map[string]Term{}
	e.unmod = map[string]bool{}
	e.counters = map[string]int{}
	e.specDone = map[string]*specInst{}
	e.closures = map[string]*ssa.MakeClosure{}
	e.baseParents = map[string][]baseParent{}
	return e
}

func (e *Engine) declare(name string, sort Sort) Term {
	n := smtName(name)
	if !e.declared[n] {
		e.declared[n] = true
		e.decls = append(e.decls, fmt.Sprintf("(declare-const %s %s)", n, sort))
		e.declName = append(e.declName, n)
	}
	return Term{n, sort}
}

func (e *Engine) declareFun(name string, args []Sort, ret Sort) string {
	n := smtName(name)
	if !e.declared[n] {
		e.declared[n] = true
		var as []string
		for _, a := range args {
			as = append(as, string(a))
		}
		e.decls = append(e.decls, fmt.Sprintf("(declare-fun %s (%s) %s)", n, strings.Join(as, " "), ret))
		e.declName = append(e.declName, n)
	}
	return n
}

func (e *Engine) fresh(sort Sort, hint string) Term {
	e.nfresh++
	return e.declare(fmt.Sprintf("%s!%d", hint, e.nfresh), sort)
}

func (e *Engine) freshVal(t types.Type, hint string) Val {
	return e.build(t, func(s Slot) Term {
		h := hint
		if s.Path != "" {
			h = hint + "." + s.Path
		}
		return e.fresh(s.Sort, h)
	})
}

const maxVCBytes = 24 << 20

func (e *Engine) assume(t Term) {
	if t.S == "true" {
		return
	}
	e.vcBytes += len(t.S)
	if e.vcBytes > maxVCBytes {
		unsupp("verification condition larger than %d MB (term blow-up); function left undecided", maxVCBytes>>20)
	}
	if !e.deadline.IsZero() && time.Now().After(e.deadline) {
		unsupp("VC generation exceeded its time budget; function left undecided")
	}
	e.assumps = append(e.assumps, Assump{T: t})
}

type snapshot struct{ nd, na, no int }

func (e *Engine) snap() snapshot { return snapshot{len(e.decls), len(e.assumps), len(e.obls)} }
func (e *Engine) rollback(s snapshot) {
	for i := s.nd; i < len(e.declName); i++ {
		delete(e.declared, e.declName[i])
	}
	e.decls = e.decls[:s.nd]
	e.declName = e.declName[:s.nd]
	e.assumps = e.assumps[:s.na]
	e.obls = e.obls[:s.no]
	// spec functions declared since the snapshot must be re-instantiated when used again
	for id, inst := range e.specDone {
		if inst.defined && !e.declared[inst.fname] {
			delete(e.specDone, id)
		}
	}
	// string constants declared since the snapshot are forgotten too
	var keep []string
	for _, str := range e.strOrder {
		if e.declared[e.strConsts[str].S] {
			keep = append(keep, str)
		} else {
			delete(e.strConsts, str)
		}
	}
	e.strOrder = keep
}

func (e *Engine) note(format string, args ...interface{}) {
	if e.quiet > 0 {
		return
	}
	s := fmt.Sprintf(format, args...)
	for _, n := range e.notes {
		if n == s {
			return
		}
	}
	e.notes = append(e.notes, s)
}

// oblige records an obligation: under guard, goal must hold.
func (e *Engine) oblige(kind, name string, guard, goal Term, pos token.Pos) *Oblig {
	if e.quiet > 0 {
		return nil
	}
	o := &Oblig{Name: e.key + "/" + name, Kind: kind, Guard: guard, Goal: goal, NDecl: len(e.decls), NAssump: len(e.assumps), Fn: e.key}
	if pos.IsValid() {
		p := e.w.fset.Position(pos)
		o.Pos = fmt.Sprintf("%s:%d", strings.TrimPrefix(p.Filename, "/repo/"), p.Line)
	}
	o.Inputs = e.inputs
	e.vcBytes += len(guard.S) + len(goal.S)
	if e.vcBytes > maxVCBytes {
		unsupp("verification condition larger than %d MB (term blow-up); function left undecided", maxVCBytes>>20)
	}
	e.obls = append(e.obls, o)
	return o
}

// ordinal gives the next ordinal for a per-function counter ("index", "call f", ...).
func (e *Engine) ordinal(what string) int {
	e.counters[what]++
	return e.counters[what]
}

// State is the symbolic machine state at a program point.
type State struct {
	cells map[*ssa.Alloc]*Cell
	heap  map[string]Term
	alloc Term
	guard Term
	base  string
}

func (s *State) clone() *State {
	n := &State{cells: make(map[*ssa.Alloc]*Cell, len(s.cells)), heap: make(map[string]Term, len(s.heap)), alloc: s.alloc, guard: s.guard, base: s.base}
	for k, v := range s.cells {
		n.cells[k] = v
	}
	for k, v := range s.heap {
		n.heap[k] = v
	}
	return n
}

// heapSort: region -> index -> slot sort
func (e *Engine) heapSort(slot Sort) Sort { return SArr(e.rs(), SArr(e.ar.idxSort(), slot)) }

// heapGet returns the current memory map for key, creating the entry map lazily.
func (e *Engine) heapGet(st *State, key string, slot Sort) Term {
	if t, ok := st.heap[key]; ok {
		return t
	}
	return e.heapGetRaw(st, key, e.heapSort(slot))
}

func (e *Engine) heapGetRaw(st *State, key string, full Sort) Term {
	if t, ok := st.heap[key]; ok {
		return t
	}
	t := e.baseGet(st.base, key, full)
	st.heap[key] = t
	return t
}

func (e *Engine) heap0(key string, slot Sort) Term {
	return e.baseGet("M0:", key, e.heapSort(slot))
}

// baseGet: the memory map for key in the heap "base" (entry heap M0:, or the heap after an unmodelled call).
func (e *Engine) baseGet(base, key string, full Sort) Term {
	if base == "" {
		base = "M0:"
	}
	keySorts[key+"|"+e.ar.mode.String()] = full
	name := smtName(base + key)
	if e.declared[name] {
		return Term{name, full}
	}
	t := e.declare(base+key, full)
	for _, p := range e.baseParents[base] {
		e.assume(Implies(p.guard, Eq(t, e.baseGet(p.base, key, full))))
	}
	return t
}

type baseParent struct {
	guard Term
	base  string
}

// loadSlots reads the value of type t stored at (rid, idx) under root/prefix.
func (e *Engine) heapLoad(st *State, root types.Type, prefix string, t types.Type, rid, idx Term) Val {
	return e.build(t, func(s Slot) Term {
		k := heapKey(root, joinPath(prefix, s.Path))
		m := e.heapGet(st, k, s.Sort)
		return Select(Select(m, rid), idx)
	})
}

func (e *Engine) heapStore(st *State, root types.Type, prefix string, v Val, rid, idx Term) {
	t := v.GoType()
	terms := e.flatten(v)
	sl := e.slots(t)
	if len(sl) != len(terms) {
		panic(fmt.Sprintf("heapStore: slot mismatch for %s: %d vs %d", t, len(sl), len(terms)))
	}
	for i, s := range sl {
		k := heapKey(root, joinPath(prefix, s.Path))
		m := e.heapGet(st, k, s.Sort)
		if len(m.S) > 4096 {
			// name a large memory term (it occurs twice in the updated map: unnamed chains of stores double in
			// size with every store)
			h := e.fresh(m.Sort, "H")
			e.assume(Eq(h, m))
			m = h
		}
		st.heap[k] = Store(m, rid, Store(Select(m, rid), idx, terms[i]))
	}
}

// sliceWF: well-formedness of a slice header (type invariant of Go slices + A2).
func (e *Engine) sliceWF(s SliceV, alloc Term) Term {
	a := e.ar
	max := a.idxLit(1 << 40)
	z := a.idxLit(0)
	return And(
		e.ridLe(e.ridLit(0), s.Rid), e.ridLt(s.Rid, alloc),
		a.idxLe(z, s.Off), a.idxLe(s.Off, max),
		a.idxLe(z, s.Len), a.idxLe(s.Len, s.Cap), a.idxLe(s.Cap, max),
		Implies(Eq(s.Rid, e.ridLit(0)), And(Eq(s.Cap, z), Eq(s.Off, z))),
	)
}

// wfVal: type invariants of an incoming / loaded value.
func (e *Engine) wfVal(v Val, alloc Term) Term {
	switch x := v.(type) {
	case Scalar:
		return e.ar.rangeFact(x.T, x.Ty)
	case SliceV:
		return e.sliceWF(x, alloc)
	case PtrV:
		if x.Local != nil {
			return TTrue
		}
		return And(e.ridLe(e.ridLit(0), x.Rid), e.ridLt(x.Rid, alloc), Implies(Eq(x.Rid, e.ridLit(0)), Eq(x.Idx, e.ar.idxLit(0))),
			e.ar.idxLe(e.ar.idxLit(0), x.Idx), e.ar.idxLe(x.Idx, e.ar.idxLit(1<<40)))
	case StructV:
		var ts []Term
		for _, f := range x.F {
			ts = append(ts, e.wfVal(f, alloc))
		}
		return And(ts...)
	case ArrayV:
		return TTrue
	case TupleV:
		var ts []Term
		for _, f := range x.Vs {
			ts = append(ts, e.wfVal(f, alloc))
		}
		return And(ts...)
	}
	return TTrue
}

func sortedKeys(m map[string]bool) []string {
	var ks []string
	for k := range m {
		ks = append(ks, k)
	}
	sort.Strings(ks)
	return ks
}

func (e *Engine) strConst(s string) Term {
	if t, ok := e.strConsts[s]; ok {
		return t
	}
	var t Term
	if s == "" {
		// the empty string is the zero value of the string type: handle 0
		t = e.ridLit(0)
	} else {
		t = e.declare(fmt.Sprintf("str!%d", len(e.strConsts)), e.rs())
		e.assumps = append(e.assumps, Assump{T: Not(Eq(t, e.ridLit(0)))})
	}
	e.strConsts[s] = t
	e.strOrder = append(e.strOrder, s)
	sl := e.declareFun("strlen", []Sort{e.rs()}, e.ar.idxSort())
	e.assumps = append(e.assumps, Assump{T: Eq(Term{fmt.Sprintf("(%s %s)", sl, t.S), e.ar.idxSort()}, e.ar.idxLit(int64(len(s))))})
	if len(s) <= 16 {
		sa := e.declareFun("strat", []Sort{e.rs(), e.ar.idxSort()}, e.byteSort())
		for i := 0; i < len(s); i++ {
			e.assumps = append(e.assumps, Assump{T: Eq(Term{fmt.Sprintf("(%s %s %s)", sa, t.S, e.ar.idxLit(int64(i)).S), e.byteSort()}, e.ar.intLit(bigInt(int64(s[i])), types.Typ[types.Uint8]))})
		}
	}
	// distinct from previous constants
	for _, o := range e.strOrder[:len(e.strOrder)-1] {
		e.assumps = append(e.assumps, Assump{T: Not(Eq(e.strConsts[o], t))})
	}
	return t
}

func (e *Engine) byteSort() Sort { return e.ar.intSort(types.Typ[types.Uint8]) }

func (e *Engine) strlen(h Term) Term {
	sl := e.declareFun("strlen", []Sort{e.rs()}, e.ar.idxSort())
	t := Term{fmt.Sprintf("(%s %s)", sl, h.S), e.ar.idxSort()}
	return t
}

// elemIdx: absolute index of element i of a slice starting at off. Wrapped in the function symbol idx
// (axiom: idx(a,b) = a+b) so that quantified facts about s[k] have an arithmetic-free trigger.
func (e *Engine) elemIdx(off, i Term) Term {
	z := e.ar.idxLit(0)
	if off.S == z.S {
		return i
	}
	// a re-based slice s[b:]: address its elements from the original base, idx(a, b+i), so that facts about
	// the sub-slice and facts about the enclosing slice talk about the same idx(a, .) terms
	if n := parseSexp(off.S); n != nil && len(n.kids) == 3 && (n.kids[0].atom == "+" || n.kids[0].atom == "bvadd") {
		a := Term{n.kids[1].text, off.Sort}
		b := Term{n.kids[2].text, off.Sort}
		return app(e.ar.idxSort(), "idx", a, e.ar.idxAdd(b, i))
	}
	return app(e.ar.idxSort(), "idx", off, i)
}

func (e *Engine) idxPrelude() string {
	s := e.ar.idxSort()
	plus := "+"
	if e.ar.mode == ModeBV {
		plus = "bvadd"
	}
	return fmt.Sprintf("(declare-fun idx (%s %s) %s)\n(assert (forall ((a %s) (b %s)) (! (= (idx a b) (%s a b)) :pattern ((idx a b)))))\n", s, s, s, s, s, plus) +
		fmt.Sprintf("(declare-fun mark (%s) Bool)\n(assert (forall ((a %s)) (! (mark a) :pattern ((mark a)))))\n", s, s)
}

// Region identifiers, map/interface/string handles and the allocation counter share one sort: Int in int mode,
// 64-bit vectors in bv mode (so that bv-mode queries stay in pure bit-vector + array logic).
func (e *Engine) rs() Sort {
	if e.ar.mode == ModeBV {
		return SBV(64)
	}
	return SInt
}

func (e *Engine) ridLit(n int64) Term {
	if e.ar.mode == ModeBV {
		return BVLit(bigInt(n), 64)
	}
	return IntLit(n)
}

func (e *Engine) ridNext(a Term) Term {
	if e.ar.mode == ModeBV {
		return app(SBV(64), "bvadd", a, BVLit(bigInt(1), 64))
	}
	return app(SInt, "+", a, IntLit(1))
}

func (e *Engine) ridLt(a, b Term) Term {
	if e.ar.mode == ModeBV {
		return app(SBool, "bvult", a, b)
	}
	return app(SBool, "<", a, b)
}

func (e *Engine) ridLe(a, b Term) Term {
	if e.ar.mode == ModeBV {
		return app(SBool, "bvule", a, b)
	}
	return app(SBool, "<=", a, b)
}

func isNilRid(t Term) bool { return t.S == "0" || t.S == "(_ bv0 64)" }

// constPointerGlobal: a package-level pointer variable initialised with `&T{...}` (its own composite literal) and never
// written outside its initialiser denotes a constant, distinct, non-nil address. Both facts are checked on the current
// tree (AST form of the initialiser, SSA scan for writers); the value is then a distinct region constant.
func (e *Engine) constPointerGlobal(p PtrV) (Val, bool) {
	if p.Local != nil || len(p.Path) > 0 || p.ArrBase || len(p.ArrIdx) > 0 {
		return nil, false
	}
	pt, ok := p.Ty.Underlying().(*types.Pointer)
	if !ok {
		return nil, false
	}
	inner, ok := pt.Elem().Underlying().(*types.Pointer)
	if !ok {
		return nil, false
	}
	g := e.w.globalByRid(p.Rid)
	if g == nil {
		return nil, false
	}
	id, ok := e.w.constPtrID(g)
	if !ok {
		return nil, false
	}
	e.note("package-level table pointers (e.g. %s) are distinct constants: checked from their initialisers (&T{...}) and an SSA scan for writers", g.Name())
	return PtrV{Ty: pt.Elem(), Rid: e.ridLit(int64(maxGlobals/2 + id)), Idx: e.ar.idxLit(0), Root: inner.Elem(), NonNil: true}, true
}
