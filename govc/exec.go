package main

import (
	"fmt"
	"go/ast"
	"go/constant"
	"go/token"
	"go/types"
	"sort"
	"strings"

	"golang.org/x/tools/go/ssa"
)

type Frame struct {
	fn      *ssa.Function
	regs    map[ssa.Value]Val
	args    []Val
	rets    []retPoint
	loops   map[*ssa.BasicBlock]*Loop
	rpo     []*ssa.BasicBlock
	top     bool
	defers  []*ssa.Defer
	ifaceOf map[ssa.Value]Val // statically known dynamic values of interface registers
	depth   int
}

type retPoint struct {
	st   *State
	vals []Val
}

type Loop struct {
	header *ssa.BasicBlock
	body   map[*ssa.BasicBlock]bool
	ord    int
	pos    token.Pos
	// set when entered in the real pass
	hdr      *State
	measure0 *Term
	spec     *LoopSpec
	frameInv []frameFact
}

type edgeIn struct {
	from *ssa.BasicBlock
	st   *State
}

func (e *Engine) newFrame(fn *ssa.Function, top bool) *Frame {
	fr := &Frame{fn: fn, regs: map[ssa.Value]Val{}, top: top, ifaceOf: map[ssa.Value]Val{}}
	fr.rpo = rpoBlocks(fn)
	fr.loops = findLoops(fn, fr.rpo)
	return fr
}

func rpoBlocks(fn *ssa.Function) []*ssa.BasicBlock {
	if len(fn.Blocks) == 0 {
		return nil
	}
	seen := map[*ssa.BasicBlock]bool{}
	var post []*ssa.BasicBlock
	var dfs func(b *ssa.BasicBlock)
	dfs = func(b *ssa.BasicBlock) {
		seen[b] = true
		for _, s := range b.Succs {
			if !seen[s] {
				dfs(s)
			}
		}
		post = append(post, b)
	}
	dfs(fn.Blocks[0])
	for i, j := 0, len(post)-1; i < j; i, j = i+1, j-1 {
		post[i], post[j] = post[j], post[i]
	}
	return post
}

func findLoops(fn *ssa.Function, rpo []*ssa.BasicBlock) map[*ssa.BasicBlock]*Loop {
	loops := map[*ssa.BasicBlock]*Loop{}
	for _, b := range rpo {
		for _, s := range b.Succs {
			if s.Dominates(b) { // back edge b -> s
				l := loops[s]
				if l == nil {
					l = &Loop{header: s, body: map[*ssa.BasicBlock]bool{s: true}}
					loops[s] = l
				}
				// nodes reaching b without passing through s
				var stack []*ssa.BasicBlock
				if !l.body[b] {
					l.body[b] = true
					stack = append(stack, b)
				}
				for len(stack) > 0 {
					x := stack[len(stack)-1]
					stack = stack[:len(stack)-1]
					for _, p := range x.Preds {
						if !l.body[p] {
							l.body[p] = true
							stack = append(stack, p)
						}
					}
				}
			}
		}
	}
	var hs []*ssa.BasicBlock
	for h := range loops {
		hs = append(hs, h)
	}
	sort.Slice(hs, func(i, j int) bool { return hs[i].Index < hs[j].Index })
	for i, h := range hs {
		loops[h].ord = i + 1
		// position: first valid pos among header/body instructions
		for _, in := range h.Instrs {
			if in.Pos().IsValid() {
				loops[h].pos = in.Pos()
				break
			}
		}
	}
	// refine loop positions from the AST (k-th for/range statement in source order)
	if syn, ok := fn.Syntax().(*ast.FuncDecl); ok && syn.Body != nil {
		var stmts []token.Pos
		ast.Inspect(syn.Body, func(n ast.Node) bool {
			switch x := n.(type) {
			case *ast.FuncLit:
				return false
			case *ast.ForStmt:
				stmts = append(stmts, x.Body.Lbrace)
			case *ast.RangeStmt:
				stmts = append(stmts, x.Body.Lbrace)
			}
			return true
		})
		if len(stmts) == len(hs) {
			for i, h := range hs {
				loops[h].pos = stmts[i]
			}
		}
	}
	return loops
}

// ---------------------------------------------------------------- running blocks

// runBlocks symbolically executes the given blocks (in RPO) starting at entry with state st0.
// If disc != nil, this is the discovery pass for loop disc: back edges to its header are returned.
func (e *Engine) runBlocks(fr *Frame, blocks []*ssa.BasicBlock, entry *ssa.BasicBlock, st0 *State, disc *Loop) []*State {
	incoming := map[*ssa.BasicBlock][]edgeIn{}
	incoming[entry] = []edgeIn{{nil, st0}}
	var backs []*State
	for _, b := range blocks {
		ins := incoming[b]
		if len(ins) == 0 {
			continue
		}
		var st *State
		loop := fr.loops[b]
		isDiscEntry := disc != nil && disc.header == b
		st = e.merge(fr, b, ins)
		if st.guard.S == "false" {
			continue
		}
		if loop != nil && !isDiscEntry {
			st = e.enterLoop(fr, loop, st)
		}
		term := e.execBlock(fr, b, st)
		addEdge := func(t *ssa.BasicBlock, g Term) {
			if g.S == "false" {
				return
			}
			ns := st.clone()
			ns.guard = g
			if l := fr.loops[t]; l != nil && t.Dominates(b) {
				// back edge
				if disc != nil && disc.header == t {
					backs = append(backs, ns)
				} else if disc == nil || disc.body[t] {
					e.loopBack(fr, l, ns, b)
				}
				return
			}
			if disc != nil && !disc.body[t] {
				return // leaving the loop during discovery
			}
			incoming[t] = append(incoming[t], edgeIn{b, ns})
		}
		switch t := term.(type) {
		case *ssa.Jump:
			addEdge(b.Succs[0], st.guard)
		case *ssa.If:
			c := e.scalar(fr.get(e, t.Cond))
			addEdge(b.Succs[0], And(st.guard, c))
			addEdge(b.Succs[1], And(st.guard, Not(c)))
		case *ssa.Return:
			var vals []Val
			for _, r := range t.Results {
				vals = append(vals, fr.get(e, r))
			}
			fr.rets = append(fr.rets, retPoint{st, vals})
		case *ssa.Panic:
			// handled in execBlock
		case nil:
			// block ended abnormally (e.g. call that never returns)
		}
	}
	return backs
}

// merge joins incoming edge states.
func (e *Engine) merge(fr *Frame, b *ssa.BasicBlock, ins []edgeIn) *State {
	if len(ins) == 1 {
		st := ins[0].st
		// phis with a single predecessor
		for _, in := range b.Instrs {
			phi, ok := in.(*ssa.Phi)
			if !ok {
				break
			}
			for i, p := range b.Preds {
				if p == ins[0].from {
					fr.regs[phi] = fr.get(e, phi.Edges[i])
				}
			}
		}
		return st
	}
	st := &State{cells: map[*ssa.Alloc]*Cell{}, heap: map[string]Term{}}
	var gs []Term
	for _, in := range ins {
		gs = append(gs, in.st.guard)
	}
	if e.iteMerge {
		return e.mergeIte(fr, b, ins, st, gs)
	}
	reach := e.fresh(SBool, fmt.Sprintf("reach.%s.b%d", fr.fn.Name(), b.Index))
	e.assume(Eq(reach, Or(gs...)))
	st.guard = reach
	// cells present in all
	first := ins[0].st
	for _, a := range sortedCells(first.cells) {
		c0 := first.cells[a]
		all := true
		same := true
		for _, in := range ins[1:] {
			c, ok := in.st.cells[a]
			if !ok {
				all = false
				break
			}
			if c != c0 && !valSame(c.V, c0.V) {
				same = false
			}
		}
		if !all {
			continue
		}
		if same {
			st.cells[a] = c0
			continue
		}
		var cands []Val
		for _, in := range ins {
			cands = append(cands, in.st.cells[a].V)
		}
		nv := e.freshLike(pickRep(cands), "phi."+c0.Name)
		for _, in := range ins {
			e.assume(Implies(in.st.guard, e.valEq(nv, in.st.cells[a].V)))
		}
		st.cells[a] = &Cell{Name: c0.Name, V: nv}
	}
	// heap keys
	keys := map[string]bool{}
	for _, in := range ins {
		for k := range in.st.heap {
			keys[k] = true
		}
	}
	for _, k := range sortedKeys(keys) {
		var ts []Term
		same := true
		for _, in := range ins {
			t, ok := in.st.heap[k]
			if !ok {
				t = e.heap0ByKey(in.st, k)
			}
			ts = append(ts, t)
			if t.S != ts[0].S {
				same = false
			}
		}
		if same {
			st.heap[k] = ts[0]
			continue
		}
		nm := e.fresh(ts[0].Sort, "Mphi:"+k)
		for i, in := range ins {
			e.assume(Implies(in.st.guard, Eq(nm, ts[i])))
		}
		st.heap[k] = nm
	}
	// heap base (untouched keys)
	sameB := true
	for _, in := range ins {
		if in.st.base != first.base {
			sameB = false
		}
	}
	if sameB {
		st.base = first.base
	} else {
		e.nbase++
		st.base = fmt.Sprintf("M%d:", e.nbase)
		for _, in := range ins {
			e.baseParents[st.base] = append(e.baseParents[st.base], baseParent{in.st.guard, in.st.baseOr0()})
		}
	}
	// alloc counter
	sameA := true
	for _, in := range ins {
		if in.st.alloc.S != first.alloc.S {
			sameA = false
		}
	}
	if sameA {
		st.alloc = first.alloc
	} else {
		na := e.fresh(e.rs(), "alloc")
		for _, in := range ins {
			e.assume(Implies(in.st.guard, Eq(na, in.st.alloc)))
		}
		st.alloc = na
	}
	// phis
	for _, in := range b.Instrs {
		phi, ok := in.(*ssa.Phi)
		if !ok {
			break
		}
		var vals []Val
		var guards []Term
		for _, ein := range ins {
			for i, p := range b.Preds {
				if p == ein.from {
					vals = append(vals, fr.get(e, phi.Edges[i]))
					guards = append(guards, ein.st.guard)
					break
				}
			}
		}
		if len(vals) == 0 {
			continue
		}
		nv := e.freshLike(pickRep(vals), "phi")
		for i := range vals {
			e.assume(Implies(guards[i], e.valEq(nv, vals[i])))
		}
		fr.regs[phi] = nv
	}
	return st
}

// keySorts remembers the slot sort of each heap key.
var keySorts = map[string]Sort{}

func (e *Engine) heap0ByKey(st *State, k string) Term {
	s, ok := keySorts[k+"|"+e.ar.mode.String()]
	if !ok {
		panic("unknown heap key sort " + k)
	}
	return e.baseGet(st.base, k, s)
}

func (s *State) baseOr0() string {
	if s.base == "" {
		return "M0:"
	}
	return s.base
}

func valSame(a, b Val) bool {
	return fmt.Sprint(shapeAndTerms(a)) == fmt.Sprint(shapeAndTerms(b))
}

// shapeAndTerms renders a value (static shape and terms) for comparison.
func shapeAndTerms(v Val) string {
	switch x := v.(type) {
	case Scalar:
		return x.T.S
	case StructV:
		var ss []string
		for _, f := range x.F {
			ss = append(ss, shapeAndTerms(f))
		}
		return "{" + strings.Join(ss, ",") + "}"
	case SliceV:
		return "[" + x.Rid.S + "," + x.Off.S + "," + x.Len.S + "," + x.Cap.S + "]"
	case PtrV:
		if x.Local != nil {
			return fmt.Sprintf("&cell(%p)%v", x.Local, cpathStr(x.CPath))
		}
		s := fmt.Sprintf("&(%s,%s|%s|%v", x.Rid.S, x.Idx.S, typeKey(x.Root), x.Path)
		for _, a := range x.ArrIdx {
			s += "@" + a.S
		}
		return s + ")"
	case ArrayV:
		if x.E != nil {
			var ss []string
			for _, f := range x.E {
				ss = append(ss, shapeAndTerms(f))
			}
			return "[" + strings.Join(ss, ",") + "]"
		}
		return x.A.S
	case TupleV:
		var ss []string
		for _, f := range x.Vs {
			ss = append(ss, shapeAndTerms(f))
		}
		return "(" + strings.Join(ss, ",") + ")"
	case nil:
		return "<nil>"
	}
	return fmt.Sprintf("%T", v)
}

// dynTerms lists the dynamic (SMT) parts of a value; static shape must agree for merging.
func dynTerms(v Val) []Term {
	var out []Term
	var rec func(v Val)
	rec = func(v Val) {
		switch x := v.(type) {
		case Scalar:
			out = append(out, x.T)
		case StructV:
			for _, f := range x.F {
				rec(f)
			}
		case SliceV:
			out = append(out, x.Rid, x.Off, x.Len, x.Cap)
		case PtrV:
			if x.Local == nil {
				out = append(out, x.Rid, x.Idx)
				out = append(out, x.ArrIdx...)
			}
		case ArrayV:
			if x.E != nil {
				for _, f := range x.E {
					rec(f)
				}
			} else {
				out = append(out, x.A)
			}
		case TupleV:
			for _, f := range x.Vs {
				rec(f)
			}
		}
	}
	rec(v)
	return out
}

func staticShape(v Val) string {
	switch x := v.(type) {
	case PtrV:
		if x.Local != nil {
			return fmt.Sprintf("&cell(%p)%v", x.Local, cpathStr(x.CPath))
		}
		return fmt.Sprintf("&(%s|%v|%d)", typeKey(x.Root), x.Path, len(x.ArrIdx))
	case StructV:
		var ss []string
		for _, f := range x.F {
			ss = append(ss, staticShape(f))
		}
		return "{" + strings.Join(ss, ",") + "}"
	case TupleV:
		var ss []string
		for _, f := range x.Vs {
			ss = append(ss, staticShape(f))
		}
		return "(" + strings.Join(ss, ",") + ")"
	case ArrayV:
		if x.E != nil {
			return fmt.Sprintf("arr%d", len(x.E))
		}
	}
	return "."
}

// adoptNilShape: a nil pointer literal takes the static shape of the pointer it is merged/compared with.
func adoptNilShape(a, b Val) (Val, Val) {
	pa, oka := a.(PtrV)
	pb, okb := b.(PtrV)
	if !oka || !okb || pa.Local != nil || pb.Local != nil {
		return a, b
	}
	if staticShape(pa) == staticShape(pb) {
		return a, b
	}
	if isNilRid(pa.Rid) {
		n := pb
		n.Rid, n.Idx, n.NonNil = pa.Rid, pa.Idx, false
		if len(pb.ArrIdx) > 0 {
			n.ArrIdx = []Term{pb.ArrIdx[0]}
		}
		return n, b
	}
	if isNilRid(pb.Rid) {
		n := pa
		n.Rid, n.Idx, n.NonNil = pb.Rid, pb.Idx, false
		return a, n
	}
	return a, b
}

func (e *Engine) valEq(a, b Val) Term {
	a, b = adoptNilShape(a, b)
	if staticShape(a) != staticShape(b) {
		unsupp("values of different static shape compared/merged: %s vs %s (%s)", staticShape(a), staticShape(b), a.GoType())
	}
	ta, tb := dynTerms(a), dynTerms(b)
	if len(ta) != len(tb) {
		unsupp("valEq: shape mismatch")
	}
	var cs []Term
	for i := range ta {
		cs = append(cs, Eq(ta[i], tb[i]))
	}
	return And(cs...)
}

// freshLike makes a fresh value with the same static shape as v.
func (e *Engine) freshLike(v Val, hint string) Val {
	switch x := v.(type) {
	case Scalar:
		return Scalar{e.fresh(x.T.Sort, hint), x.Ty}
	case StructV:
		n := StructV{Ty: x.Ty}
		for _, f := range x.F {
			n.F = append(n.F, e.freshLike(f, hint))
		}
		return n
	case SliceV:
		is := e.ar.idxSort()
		return SliceV{Ty: x.Ty, Rid: e.fresh(e.rs(), hint+".rid"), Off: e.fresh(is, hint+".off"), Len: e.fresh(is, hint+".len"), Cap: e.fresh(is, hint+".cap")}
	case PtrV:
		if x.Local != nil {
			return x
		}
		n := x
		n.Rid = e.fresh(e.rs(), hint+".prid")
		n.Idx = e.fresh(e.ar.idxSort(), hint+".pidx")
		if len(x.ArrIdx) > 0 {
			n.ArrIdx = []Term{e.fresh(e.ar.idxSort(), hint+".aidx")}
		}
		return n
	case ArrayV:
		if x.E != nil {
			n := ArrayV{Ty: x.Ty}
			for _, f := range x.E {
				n.E = append(n.E, e.freshLike(f, hint))
			}
			return n
		}
		return ArrayV{Ty: x.Ty, A: e.fresh(x.A.Sort, hint)}
	case TupleV:
		n := TupleV{Ty: x.Ty}
		for _, f := range x.Vs {
			n.Vs = append(n.Vs, e.freshLike(f, hint))
		}
		return n
	}
	panic(fmt.Sprintf("freshLike %T", v))
}

// ---------------------------------------------------------------- loops

type frameFact struct {
	key  string
	sort Sort
}

// enterLoop: discovery, init obligations, havoc, assume invariant.
func (e *Engine) enterLoop(fr *Frame, l *Loop, pre *State) *State {
	// discovery pass
	var body []*ssa.BasicBlock
	for _, b := range fr.rpo {
		if l.body[b] {
			body = append(body, b)
		}
	}
	snap := e.snap()
	savedCounters := map[string]int{}
	for k, v := range e.counters {
		savedCounters[k] = v
	}
	savedRets := len(fr.rets)
	e.quiet++
	d := pre.clone()
	for _, a := range sortedCells(d.cells) {
		c := d.cells[a]
		d.cells[a] = &Cell{Name: c.Name, V: e.freshLike(c.V, "disc."+c.Name)}
	}
	for _, k := range sortedHeapKeys(d.heap) {
		t := d.heap[k]
		d.heap[k] = e.fresh(t.Sort, "discM")
	}
	d.alloc = e.fresh(e.rs(), "discalloc")
	dref := d.clone()
	backs := e.runBlocks(fr, body, l.header, d, l)
	chCells := map[*ssa.Alloc]bool{}
	chKeys := map[string]bool{}
	chAlloc := false
	for _, bs := range backs {
		for a, c := range bs.cells {
			if c0, ok := dref.cells[a]; ok && c0 != c && !valSame(c0.V, c.V) {
				chCells[a] = true
			}
		}
		for k, t := range bs.heap {
			if t0, ok := dref.heap[k]; !ok {
				if t.S != e.heap0ByKey(bs, k).S {
					chKeys[k] = true
				}
			} else if t0.S != t.S {
				chKeys[k] = true
			}
		}
		if bs.alloc.S != dref.alloc.S {
			chAlloc = true
		}
	}
	e.quiet--
	e.rollback(snap)
	e.counters = savedCounters
	fr.rets = fr.rets[:savedRets]

	var spec *LoopSpec
	if fr.top && e.contract != nil {
		spec = e.contract.Loops[l.ord]
	}
	l.spec = spec
	// init obligations in the pre-state
	if fr.top && spec != nil {
		env := e.envAt(fr, pre, l.pos)
		env.rangeIdx = loopRangeIndex(l)
		for i, inv := range spec.Invariants {
			goal := e.evalClause(env, inv)
			e.oblige("loop-init", fmt.Sprintf("loop%d/init[%s]", l.ord, clauseName(inv, i)), pre.guard, goal, l.pos)
		}
	}
	// havoc
	st := pre.clone()
	for _, a := range sortedAllocSet(chCells) {
		c := st.cells[a]
		if c == nil {
			continue
		}
		nv := e.freshLike(c.V, fmt.Sprintf("L%d.%s", l.ord, c.Name))
		st.cells[a] = &Cell{Name: c.Name, V: nv}
		e.assume(Implies(st.guard, e.wfVal(nv, st.alloc)))
	}
	var ff []frameFact
	for _, k := range sortedKeys(chKeys) {
		cur, ok := st.heap[k]
		if !ok {
			cur = e.heap0ByKey(st, k)
		}
		st.heap[k] = e.fresh(cur.Sort, fmt.Sprintf("L%d.M:%s", l.ord, k))
		if !strings.HasPrefix(k, "map:") {
			ff = append(ff, frameFact{k, arrElemSort(arrElemSort(cur.Sort))})
		}
	}
	l.frameInv = ff
	if chAlloc {
		na := e.fresh(e.rs(), fmt.Sprintf("L%d.alloc", l.ord))
		e.assume(e.ridLe(st.alloc, na))
		st.alloc = na
	}
	// cells holding heap values must stay well-formed w.r.t. the new alloc
	e.autoLoopFacts(fr, l, st)
	// assume invariants
	if fr.top && spec != nil {
		env := e.envAt(fr, st, l.pos)
		env.rangeIdx = loopRangeIndex(l)
		var invs []Term
		for _, inv := range spec.Invariants {
			t := e.evalClause(env, inv)
			invs = append(invs, t)
		}
		if e.quiet == 0 {
			// cover: invariant is satisfiable together with path
			o := e.oblige("loop-cover", fmt.Sprintf("loop%d/cover", l.ord), TTrue, And(append([]Term{st.guard}, invs...)...), l.pos)
			if o != nil {
				o.WantSat = true
			}
		}
		for _, t := range invs {
			e.assume(Implies(st.guard, t))
		}
		if spec.Decreases != nil {
			m := e.scalar(env.eval(spec.Decreases.Expr))
			l.measure0 = &m
		}
	}
	// frame facts for modified heap maps (function-level modifies clause), assumed at the head, checked at back edges
	if fr.top && e.contract != nil && !e.w.sweep && !e.contract.ModAny {
		for _, f := range ff {
			e.assume(Implies(st.guard, e.frameFormula(st, f.key, f.sort, true)))
		}
	}
	l.hdr = st.clone()
	return st
}

func clauseName(c Clause, i int) string {
	if c.Label != "" {
		return c.Label
	}
	return fmt.Sprintf("%d", i+1)
}

// autoLoopFacts: range-index bounds.
func (e *Engine) autoLoopFacts(fr *Frame, l *Loop, st *State) {
	// pattern: header: t = *ri; t2 = t + 1; *ri = t2; t3 = t2 < n; if t3 ...
	for _, in := range l.header.Instrs {
		bo, ok := in.(*ssa.BinOp)
		if !ok || bo.Op != token.LSS {
			continue
		}
		add, ok := bo.X.(*ssa.BinOp)
		if !ok || add.Op != token.ADD {
			continue
		}
		ld, ok := add.X.(*ssa.UnOp)
		if !ok || ld.Op != token.MUL {
			continue
		}
		al, ok := ld.X.(*ssa.Alloc)
		if !ok || al.Comment != "rangeindex" {
			continue
		}
		c := st.cells[al]
		if c == nil {
			continue
		}
		ri := e.scalar(c.V)
		n, ok2 := fr.regs[bo.Y]
		if !ok2 {
			if cst, isc := bo.Y.(*ssa.Const); isc {
				n = e.constVal(cst)
			} else {
				continue
			}
		}
		nt := e.scalar(n)
		intT := types.Typ[types.Int]
		m1 := e.ar.intLit(bigInt(-1), intT)
		ge, _ := e.ar.BinOp(token.GEQ, ri, m1, intT, intT)
		lt, _ := e.ar.BinOp(token.LSS, ri, nt, intT, intT)
		zero := e.ar.intLit(bigInt(0), intT)
		nneg, _ := e.ar.BinOp(token.GEQ, nt, zero, intT, intT)
		// ri in [-1, n-1] whenever n >= 0 ; if n == 0 then ri == -1
		e.assume(Implies(st.guard, And(ge, Or(lt, And(Eq(ri, m1), nneg)), Implies(Eq(nt, zero), Eq(ri, m1)))))
	}
}

// loopBack: preserve obligations at a back edge.
func (e *Engine) loopBack(fr *Frame, l *Loop, st *State, from *ssa.BasicBlock) {
	if !fr.top || e.quiet > 0 {
		return
	}
	if l.spec != nil {
		env := e.envAt(fr, st, l.pos)
		env.rangeIdx = loopRangeIndex(l)
		for i, inv := range l.spec.Invariants {
			goal := e.evalClause(env, inv)
			e.oblige("loop-preserve", fmt.Sprintf("loop%d/preserve[%s]@b%d", l.ord, clauseName(inv, i), from.Index), st.guard, goal, l.pos)
		}
		if l.spec.Decreases != nil && l.measure0 != nil {
			m1 := e.scalar(env.eval(l.spec.Decreases.Expr))
			intT := types.Typ[types.Int]
			lt, _ := e.ar.BinOp(token.LSS, m1, *l.measure0, intT, intT)
			ge, _ := e.ar.BinOp(token.GEQ, *l.measure0, e.ar.intLit(bigInt(0), intT), intT, intT)
			e.oblige("loop-decreases", fmt.Sprintf("loop%d/decreases@b%d", l.ord, from.Index), st.guard, And(lt, ge), l.pos)
		}
	}
	if e.contract != nil && !e.w.sweep && !e.contract.ModAny {
		for _, f := range l.frameInv {
			e.oblige("modifies", fmt.Sprintf("loop%d/frame[%s]@b%d", l.ord, shortKey(f.key), from.Index), st.guard, e.frameFormula(st, f.key, f.sort, false), l.pos)
		}
	}
}

func shortKey(k string) string {
	k = strings.ReplaceAll(k, modPrefix, "")
	return k
}

// ---------------------------------------------------------------- values of ssa.Value

func (fr *Frame) get(e *Engine, v ssa.Value) Val {
	if x, ok := fr.regs[v]; ok {
		return x
	}
	switch c := v.(type) {
	case *ssa.Const:
		return e.constVal(c)
	case *ssa.Global:
		return e.globalPtr(c)
	case *ssa.Function:
		return Scalar{e.declare("fn:"+c.String(), e.rs()), c.Type()}
	case *ssa.Builtin:
		return Scalar{e.ridLit(0), types.Typ[types.Int]}
	case *ssa.FreeVar:
		// captured variable: pointer to unknown heap location
		nv := e.freshVal(c.Type(), "freevar."+c.Name())
		fr.regs[v] = nv
		return nv
	}
	panic(unsupported{fmt.Sprintf("value %s (%T) not defined", v.Name(), v)})
}

func (e *Engine) globalPtr(g *ssa.Global) Val {
	id, ok := e.w.globals[g]
	if !ok {
		id = len(e.w.globals) + 1
		e.w.globals[g] = id
	}
	pt := g.Type().(*types.Pointer)
	if at, ok := pt.Elem().Underlying().(*types.Array); ok {
		// global arrays live in the element maps (like heap arrays)
		return PtrV{Ty: pt, Rid: e.ridLit(int64(id)), Idx: e.ar.idxLit(0), Root: at.Elem(), NonNil: true, ArrBase: true, ArrLen: at.Len()}
	}
	return PtrV{Ty: pt, Rid: e.ridLit(int64(id)), Idx: e.ar.idxLit(0), Root: pt.Elem(), NonNil: true}
}

const maxGlobals = 100000

func (e *Engine) constVal(c *ssa.Const) Val {
	t := c.Type()
	if c.Value == nil {
		// zero value / nil
		if _, ok := t.Underlying().(*types.Basic); ok && t.Underlying().(*types.Basic).Kind() == types.UntypedNil {
			return Scalar{e.ridLit(0), t}
		}
		return e.zeroVal(t)
	}
	switch c.Value.Kind() {
	case constant.Bool:
		return Scalar{BoolLit(constant.BoolVal(c.Value)), t}
	case constant.String:
		return Scalar{e.strConst(constant.StringVal(c.Value)), t}
	case constant.Int:
		if isFloat(t) {
			r, _ := constant.Float64Val(c.Value)
			return Scalar{RealLit(ratOf(r)), t}
		}
		bi, _ := constant.Val(c.Value).(interface{ String() string })
		_ = bi
		n := constToBig(c.Value)
		if _, _, ok := intInfo(t); !ok {
			unsupp("int constant of type %s", t)
		}
		return Scalar{e.ar.intLit(n, t), t}
	case constant.Float:
		if isFloat(t) {
			return Scalar{RealLit(constToRat(c.Value)), t}
		}
		n := constToBig(constant.ToInt(c.Value))
		return Scalar{e.ar.intLit(n, t), t}
	}
	unsupp("constant kind %v", c.Value.Kind())
	return nil
}

func (e *Engine) scalar(v Val) Term {
	s, ok := v.(Scalar)
	if !ok {
		unsupp("expected scalar, got %T (%v)", v, v.GoType())
	}
	return s.T
}

// toIdx converts an integer scalar to the index sort.
func (e *Engine) toIdx(v Val) Term {
	s := v.(Scalar)
	if e.ar.mode == ModeInt && s.T.Sort == SInt {
		// an index of an unsigned type is used as it is (Go does not convert it to int): no wrap-around
		if _, signed, ok := intInfo(s.Ty); ok && !signed {
			return s.T
		}
	}
	return e.ar.Convert(s.T, s.Ty, types.Typ[types.Int], e.fresh)
}

// mapVal2 combines two values of identical static shape term-wise.
func mapVal2(a, b Val, f func(x, y Term) Term) Val {
	switch x := a.(type) {
	case Scalar:
		return Scalar{f(x.T, b.(Scalar).T), x.Ty}
	case StructV:
		y := b.(StructV)
		n := StructV{Ty: x.Ty}
		for i := range x.F {
			n.F = append(n.F, mapVal2(x.F[i], y.F[i], f))
		}
		return n
	case SliceV:
		y := b.(SliceV)
		return SliceV{Ty: x.Ty, Rid: f(x.Rid, y.Rid), Off: f(x.Off, y.Off), Len: f(x.Len, y.Len), Cap: f(x.Cap, y.Cap)}
	case PtrV:
		y := b.(PtrV)
		if x.Local != nil {
			return x
		}
		n := x
		n.Rid, n.Idx = f(x.Rid, y.Rid), f(x.Idx, y.Idx)
		n.NonNil = x.NonNil && y.NonNil
		if len(x.ArrIdx) > 0 {
			n.ArrIdx = []Term{f(x.ArrIdx[0], y.ArrIdx[0])}
		}
		return n
	case ArrayV:
		y := b.(ArrayV)
		if x.E != nil {
			n := ArrayV{Ty: x.Ty}
			for i := range x.E {
				n.E = append(n.E, mapVal2(x.E[i], y.E[i], f))
			}
			return n
		}
		return ArrayV{Ty: x.Ty, A: f(x.A, y.A)}
	case TupleV:
		y := b.(TupleV)
		n := TupleV{Ty: x.Ty}
		for i := range x.Vs {
			n.Vs = append(n.Vs, mapVal2(x.Vs[i], y.Vs[i], f))
		}
		return n
	}
	panic(fmt.Sprintf("mapVal2 %T", a))
}

func (e *Engine) iteVals(guards []Term, vals []Val) Val {
	res := vals[len(vals)-1]
	for i := len(vals) - 2; i >= 0; i-- {
		vals[i], res = adoptNilShape(vals[i], res)
		if staticShape(vals[i]) != staticShape(res) {
			unsupp("merge of values with different static shape")
		}
		g := guards[i]
		res = mapVal2(vals[i], res, func(x, y Term) Term { return Ite(g, x, y) })
	}
	return res
}

// mergeIte: merge without fresh variables (used when evaluating Go code inside contract expressions).
func (e *Engine) mergeIte(fr *Frame, b *ssa.BasicBlock, ins []edgeIn, st *State, gs []Term) *State {
	st.guard = Or(gs...)
	first := ins[0].st
	st.base = first.base
	st.alloc = first.alloc
	for _, a := range sortedCells(first.cells) {
		c0 := first.cells[a]
		all := true
		var vals []Val
		for _, in := range ins {
			c, ok := in.st.cells[a]
			if !ok {
				all = false
				break
			}
			vals = append(vals, c.V)
		}
		if !all {
			continue
		}
		st.cells[a] = &Cell{Name: c0.Name, V: e.iteVals(gs, vals)}
	}
	keys := map[string]bool{}
	for _, in := range ins {
		for k := range in.st.heap {
			keys[k] = true
		}
	}
	for _, k := range sortedKeys(keys) {
		var ts []Val
		for _, in := range ins {
			t, ok := in.st.heap[k]
			if !ok {
				t = e.heap0ByKey(in.st, k)
			}
			ts = append(ts, Scalar{T: t})
		}
		st.heap[k] = e.iteVals(gs, ts).(Scalar).T
	}
	for _, in := range b.Instrs {
		phi, ok := in.(*ssa.Phi)
		if !ok {
			break
		}
		var vals []Val
		var guards []Term
		for _, ein := range ins {
			for i, p := range b.Preds {
				if p == ein.from {
					vals = append(vals, fr.get(e, phi.Edges[i]))
					guards = append(guards, ein.st.guard)
					break
				}
			}
		}
		if len(vals) > 0 {
			fr.regs[phi] = e.iteVals(guards, vals)
		}
	}
	return st
}

// loopRangeIndex: the hidden index cell of a range loop (incremented in its header).
func loopRangeIndex(l *Loop) *ssa.Alloc {
	for _, in := range l.header.Instrs {
		if ld, ok := in.(*ssa.UnOp); ok && ld.Op == token.MUL {
			if al, ok := ld.X.(*ssa.Alloc); ok && al.Comment == "rangeindex" {
				return al
			}
		}
	}
	return nil
}

// pickRep chooses the value whose static shape the merged value takes: a non-nil-literal pointer if there is one.
func pickRep(vals []Val) Val {
	for _, v := range vals {
		if p, ok := v.(PtrV); ok && p.Local == nil && !isNilRid(p.Rid) {
			p.NonNil = false
			return p
		}
	}
	if p, ok := vals[0].(PtrV); ok {
		p.NonNil = false
		return p
	}
	return vals[0]
}

// sortedCells / sortedAllocSet: deterministic iteration order (source position, then name), so that the generated
// verification conditions are byte-identical from run to run.
func sortedCells(m map[*ssa.Alloc]*Cell) []*ssa.Alloc {
	var ks []*ssa.Alloc
	for a := range m {
		ks = append(ks, a)
	}
	sortAllocs(ks)
	return ks
}

func sortedAllocSet(m map[*ssa.Alloc]bool) []*ssa.Alloc {
	var ks []*ssa.Alloc
	for a := range m {
		ks = append(ks, a)
	}
	sortAllocs(ks)
	return ks
}

func sortAllocs(ks []*ssa.Alloc) {
	sort.Slice(ks, func(i, j int) bool {
		a, b := ks[i], ks[j]
		if a.Pos() != b.Pos() {
			return a.Pos() < b.Pos()
		}
		if a.Comment != b.Comment {
			return a.Comment < b.Comment
		}
		if a.Parent() != b.Parent() && a.Parent() != nil && b.Parent() != nil {
			return a.Parent().String() < b.Parent().String()
		}
		return a.Name() < b.Name()
	})
}
