#!/bin/bash
# regenerates every claim list (expected/*.txt) from the current tree; run after engine or contract changes, then tools_runall.sh
cd /verif
for p in C01 C02 C03 C04 C06 C07 C08 C09c C11 C12 C13 C14 C15 C16 C18 C19 C20; do
  bin/govc claim $p 2>&1 | tail -1
done
bin/govc claim C09 2>&1 | tail -1
