package tables

// Witness for C09: Ltag.Language indexes the tag ranges and slices the string data without any check. Its caller
// (harfbuzz aatMapBuilder.compileFlag) passes a feature setting read from the 'morx' table, and the table is the zero
// Ltag when the font has no 'ltag' table; offset+length is also computed in uint16 and can wrap.
import "testing"

func TestVerifWitnessC09LtagLanguage(t *testing.T) {
	check := func(name string, lt Ltag, i uint16) {
		defer func() {
			if r := recover(); r != nil {
				t.Errorf("%s: Language(%d) panics: %v", name, i, r)
			}
		}()
		lt.Language(i)
	}
	check("font without ltag table", Ltag{}, 0)
	lt, _, err := ParseLtag([]byte{0, 0, 0, 1, 0, 0, 0, 0, 0, 0, 0, 1, 0, 16, 0, 200})
	if err != nil {
		t.Fatal(err)
	}
	check("range beyond the table", lt, 0)
	check("index beyond numTags", lt, 1)
}
