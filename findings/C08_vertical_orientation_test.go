package shaping

// Witness for defect S4a (fixed): computeBidiOrdering compared whole Direction values, so in a vertical paragraph a run
// whose orientation bits differ from the paragraph's (resolved by splitByVertOrientation) was treated as having the
// opposite progression and the line was reversed.
import (
	"testing"

	"github.com/go-text/typesetting/di"
)

func TestVerifWitnessC08VerticalOrientation(t *testing.T) {
	upright := di.DirectionTTB
	upright.SetSideways(false)
	sideways := di.DirectionTTB
	sideways.SetSideways(true)
	line := Line{{Direction: upright}, {Direction: sideways}}
	computeBidiOrdering(di.DirectionTTB, line)
	if line[0].VisualIndex != 0 || line[1].VisualIndex != 1 {
		t.Fatalf("two top-to-bottom runs in a top-to-bottom paragraph must keep logical order, got %d %d", line[0].VisualIndex, line[1].VisualIndex)
	}
}
