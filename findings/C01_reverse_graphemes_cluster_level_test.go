package harfbuzz

// Witness for C01 ("cluster indices are monotone in the run's reading direction"): when a run is shaped against the
// native direction of its script (Arabic forced left-to-right), the buffer is reversed grapheme by grapheme. At the
// cluster level MonotoneCharacters the marks of a grapheme have their own cluster values, so the clusters of each
// grapheme must be merged for the reversed buffer to stay monotone (HarfBuzz: reverse_groups(grapheme,
// cluster_level == MONOTONE_CHARACTERS)). The merge was requested for MonotoneGraphemes instead - where it is a
// no-op - and never at MonotoneCharacters.
import (
	"testing"

	"github.com/go-text/typesetting/font"
	"github.com/go-text/typesetting/language"
)

func TestVerifWitnessC01ReverseGraphemesClusterLevel(t *testing.T) {
	ft := openFontFile(t, "perf_reference/fonts/Amiri-Regular.ttf")
	fnt := NewFont(font.NewFace(ft))
	text := []rune{0x0628, 0x064E, 0x0628, 0x064E, 0x0650, 0x0628} // BEH FATHA BEH FATHA KASRA BEH
	buf := NewBuffer()
	buf.ClusterLevel = MonotoneCharacters
	buf.AddRunes(text, 0, -1)
	buf.Props.Direction = LeftToRight
	buf.Props.Script = language.Arabic
	buf.Props.Language = language.NewLanguage("ar")
	buf.Shape(fnt, nil)
	var clusters []int
	for _, g := range buf.Info {
		clusters = append(clusters, g.Cluster)
	}
	for i := 1; i < len(clusters); i++ {
		if clusters[i-1] > clusters[i] {
			t.Fatalf("clusters are not monotone in the (left-to-right) output: %v", clusters)
		}
	}
}
