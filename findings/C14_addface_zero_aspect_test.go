package fontscan

// Witness for C14 ("font resolution is total"): a face added with a Description whose Aspect is left unset (the zero
// value, which font.Aspect documents as "unset") enters the database with style 0; matchStyle then selects a style no
// candidate has, retainsBestMatches returns an empty list and buildCandidates indexes it.
import (
	"bytes"
	"log"
	"os"
	"testing"

	td "github.com/go-text/typesetting-utils/opentype"
	"github.com/go-text/typesetting/font"
	ot "github.com/go-text/typesetting/font/opentype"
)

func TestVerifWitnessC14AddFaceZeroAspect(t *testing.T) {
	file, err := td.Files.ReadFile("common/Roboto-BoldItalic.ttf")
	if err != nil {
		t.Skip(err)
	}
	ld, err := ot.NewLoader(bytes.NewReader(file))
	if err != nil {
		t.Skip(err)
	}
	ft, err := font.NewFont(ld)
	if err != nil {
		t.Skip(err)
	}
	fm := NewFontMap(log.New(os.Stderr, "", 0))
	defer func() {
		if r := recover(); r != nil {
			t.Errorf("ResolveFace panics after AddFace with an unset Aspect: %v", r)
		}
	}()
	fm.AddFace(font.NewFace(ft), Location{File: "roboto"}, font.Description{Family: "roboto"})
	fm.SetQuery(Query{Families: []string{"roboto"}})
	if fm.ResolveFace('a') == nil {
		t.Errorf("no face resolved")
	}
}
