package opentype

// Witness for C19 ("loading it returns exactly the same tags and byte contents", table lengths 0..4096): an empty
// table that is the last one of the file starts at the end of the file; reading its zero bytes there returns io.EOF
// and RawTable reports an error instead of the empty content.
import (
	"bytes"
	"testing"
)

func TestVerifWitnessC19EmptyLastTable(t *testing.T) {
	file := WriteTTF([]Table{{Tag: MustNewTag("aaaa"), Content: []byte{1, 2, 3, 4}}, {Tag: MustNewTag("bbbb"), Content: []byte{}}})
	ld, err := NewLoader(bytes.NewReader(file))
	if err != nil {
		t.Fatal(err)
	}
	content, err := ld.RawTable(MustNewTag("bbbb"))
	if err != nil || len(content) != 0 {
		t.Fatalf("RawTable of the empty last table: content %v, error %v", content, err)
	}
}
