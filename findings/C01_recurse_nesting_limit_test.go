package harfbuzz

// Witness for C01 ("returns without ... looping", mechanism "budgets ... checked in recursion"): once the nesting
// budget of contextual lookups (maxNestingLevel) is used up, recurse must refuse to go deeper; it only consumed one
// operation and recursed anyway, so a contextual lookup that refers to itself recursed until the operation budget
// (at least 16384) was exhausted.
import "testing"

func TestVerifWitnessC01RecurseNestingLimit(t *testing.T) {
	calls := 0
	c := &otApplyContext{buffer: &Buffer{maxOps: 1000}}
	c.recurseFunc = func(c *otApplyContext, lookupIndex uint16) bool { calls++; return true }
	c.nestingLevelLeft = 0
	if c.recurse(3) || calls != 0 {
		t.Fatalf("recurse went deeper although no nesting level is left (%d nested calls, nestingLevelLeft now %d)", calls, c.nestingLevelLeft)
	}
}
