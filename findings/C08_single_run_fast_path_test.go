package shaping

// Observation (C08 last sentence / C04 "single-run fast path"): WrapParagraph returns a single run that fits without
// post-processing it: the trailing white space is not trimmed and VisualIndex keeps whatever the input run carried,
// whereas the same paragraph wrapped through Prepare + WrapNextLine is post-processed.
import (
	"testing"

	"github.com/go-text/typesetting/di"
	"golang.org/x/image/math/fixed"
)

func TestVerifWitnessC08SingleRunFastPath(t *testing.T) {
	text := []rune("ab ")
	mk := func() Output {
		gs := []Glyph{
			{Width: fixed.I(10), Height: fixed.I(10), XAdvance: fixed.I(10), ClusterIndex: 0, RuneCount: 1, GlyphCount: 1},
			{Width: fixed.I(10), Height: fixed.I(10), XAdvance: fixed.I(10), ClusterIndex: 1, RuneCount: 1, GlyphCount: 1},
			{Width: 0, Height: 0, XAdvance: fixed.I(10), ClusterIndex: 2, RuneCount: 1, GlyphCount: 1},
		}
		o := Output{Glyphs: gs, Direction: di.DirectionLTR, Runes: Range{Offset: 0, Count: 3}, VisualIndex: 3}
		o.RecomputeAdvance()
		return o
	}
	var w1 LineWrapper
	fast, _ := w1.WrapParagraph(WrapConfig{}, 100, text, NewSliceIterator([]Output{mk()}))
	var w2 LineWrapper
	w2.Prepare(WrapConfig{}, text, NewSliceIterator([]Output{mk()}))
	slow, _ := w2.WrapNextLine(100)
	if fast[0][0].Advance != slow.Line[0].Advance || fast[0][0].VisualIndex != slow.Line[0].VisualIndex {
		t.Fatalf("WrapParagraph: advance %v visual index %d; Prepare+WrapNextLine: advance %v visual index %d",
			fast[0][0].Advance, fast[0][0].VisualIndex, slow.Line[0].Advance, slow.Line[0].VisualIndex)
	}
}
