package cff

// Witness for C09: the operand count n of the CFF2 blend operator comes from the charstring; a negative n passes the
// "enough arguments" test and is then used to slice the argument stack.
import (
	"testing"

	ps "github.com/go-text/typesetting/font/cff/interpreter"
	"github.com/go-text/typesetting/font/opentype/tables"
)

func TestVerifWitnessC09Cff2BlendNegative(t *testing.T) {
	met := &cff2CharstringHandler{scalars: []float32{1}, coords: []tables.Coord{1}}
	var state ps.Machine
	state.ArgStack.Vals[0] = -2
	state.ArgStack.Top = 1
	defer func() {
		if r := recover(); r != nil {
			t.Errorf("blend with n = -2 panics: %v", r)
		}
	}()
	if err := met.blend(&state); err == nil {
		t.Errorf("blend with n = -2 is accepted (stack top now %d)", state.ArgStack.Top)
	}
}
