package tables

// Witness for C09: CBLC.parseIndexSubTables slices the table at start+additionalOffsetToIndexSubtable without checking
// it, and passes lastGlyph-firstGlyph+2 as an array length even when lastGlyph < firstGlyph.
import (
	"encoding/binary"
	"testing"
)

func cblcWith(first, last uint16, additionalOffset uint32, indexFormat uint16) []byte {
	src := make([]byte, 8+48+8+16)
	binary.BigEndian.PutUint16(src[0:], 3)      // major version
	binary.BigEndian.PutUint32(src[4:], 1)      // one BitmapSize record
	binary.BigEndian.PutUint32(src[8:], 56)     // indexSubTableArrayOffset
	binary.BigEndian.PutUint32(src[8+8:], 1)    // numberOfIndexSubTables
	binary.BigEndian.PutUint16(src[56:], first) // IndexSubTableArray record
	binary.BigEndian.PutUint16(src[58:], last)
	binary.BigEndian.PutUint32(src[60:], additionalOffset)
	binary.BigEndian.PutUint16(src[64:], indexFormat) // IndexSubHeader
	return src
}

func TestVerifWitnessC09CblcSubtableOffsets(t *testing.T) {
	for name, src := range map[string][]byte{
		"offset beyond the table":    cblcWith(1, 2, 0xFFFFFF, 1),
		"last glyph before the first": cblcWith(10, 0, 8, 1),
	} {
		func() {
			defer func() {
				if r := recover(); r != nil {
					t.Errorf("%s: ParseCBLC panics: %v", name, r)
				}
			}()
			ParseCBLC(src)
		}()
	}
}
