package segmenter

// Witness for defect S-GB11 (fixed): UAX #29 rule GB11 (ExtPict Extend* ZWJ x ExtPict). An Extended_Pictographic
// character that directly follows another one must itself start a new candidate sequence; the cursor dropped the
// sequence instead, so "pic pic ZWJ pic" got a grapheme boundary between ZWJ and the last pictograph.
import "testing"

func TestVerifWitnessC06GB11Restart(t *testing.T) {
	text := []rune{0x1F600, 0x1F600, 0x200D, 0x1F600}
	var seg Segmenter
	seg.Init(text)
	it := seg.GraphemeIterator()
	var got []int
	for it.Next() {
		got = append(got, len(it.Grapheme().Text))
	}
	// expected graphemes: [pic] [pic ZWJ pic]
	if len(got) != 2 || got[0] != 1 || got[1] != 3 {
		t.Fatalf("grapheme lengths %v, UAX #29 gives [1 3]", got)
	}
}
