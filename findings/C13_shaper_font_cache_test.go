package shaping

// Witness for S2 (property C13): HarfbuzzShaper caches the harfbuzz.Font, which captures a *font.Face (variation
// coordinates, ppem), under the *font.Font key. A second face of the same font with other variation coordinates is
// shaped with the first face's cached harfbuzz.Font: a used shaper does not return what a fresh one returns.
import (
	"bytes"
	"testing"

	"github.com/go-text/typesetting/di"
	"github.com/go-text/typesetting/font"
	ot "github.com/go-text/typesetting/font/opentype"
	"github.com/go-text/typesetting/language"
	td "github.com/go-text/typesetting-utils/opentype"
	"golang.org/x/image/math/fixed"
)

func TestVerifWitnessC13ShaperFontCache(t *testing.T) {
	file, err := td.Files.ReadFile("common/Commissioner-VF.ttf")
	if err != nil {
		t.Skip(err)
	}
	ld, err := ot.NewLoader(bytes.NewReader(file))
	if err != nil {
		t.Skip(err)
	}
	ft, err := font.NewFont(ld)
	if err != nil {
		t.Skip(err)
	}
	face1 := font.NewFace(ft)
	face2 := font.NewFace(ft)
	face2.SetVariations([]font.Variation{{Tag: ot.MustNewTag("wght"), Value: 900}})
	text := []rune("Hamburgefonts")
	in := func(f *font.Face) Input {
		return Input{Text: text, RunStart: 0, RunEnd: len(text), Direction: di.DirectionLTR, Face: f, Size: fixed.I(16),
			Script: language.Latin, Language: language.NewLanguage("en")}
	}
	var used HarfbuzzShaper
	used.SetFontCacheSize(8)
	used.Shape(in(face1))
	got := used.Shape(in(face2)).Advance
	var fresh HarfbuzzShaper
	want := fresh.Shape(in(face2)).Advance
	if got != want {
		t.Fatalf("a used shaper returns advance %v for the wght=900 face, a fresh shaper returns %v", got, want)
	}
}
