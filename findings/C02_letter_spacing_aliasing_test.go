package shaping

// Witness for defect S3 (fixed): cutRun(trimStart=true) trimmed the leading letter spacing through the glyph storage
// shared with the caller's runs; a run consumed whole later kept an Advance computed before that write, so the run's
// Advance no longer equalled the sum of its glyph advances (property C02, and the caller's input was mutated).
import (
	"testing"

	"github.com/go-text/typesetting/di"
	"golang.org/x/image/math/fixed"
)

func verifWitnessRun(start, end int) Output {
	var out Output
	out.Direction = di.DirectionLTR
	out.Runes = Range{Offset: start, Count: end - start}
	for i := start; i < end; i++ {
		out.Glyphs = append(out.Glyphs, Glyph{Width: fixed.I(10), Height: fixed.I(-10), YBearing: fixed.I(10), XAdvance: fixed.I(10), ClusterIndex: i, RuneCount: 1, GlyphCount: 1})
	}
	out.RecomputeAdvance()
	return out
}

func TestVerifWitnessC02LetterSpacingAliasing(t *testing.T) {
	text := []rune("aaa bbb ccc ddd")
	runs := []Output{verifWitnessRun(0, 4), verifWitnessRun(4, 12), verifWitnessRun(12, 15)}
	AddSpacing(runs, text, 0, fixed.I(4))
	var before []fixed.Int26_6
	for _, r := range runs {
		for _, g := range r.Glyphs {
			before = append(before, g.XAdvance)
		}
	}
	var w LineWrapper
	w.Prepare(WrapConfig{}, text, NewSliceIterator(runs))
	for _, width := range []int{60, 200, 200, 200} {
		line, done := w.WrapNextLine(width)
		for _, run := range line.Line {
			var sum fixed.Int26_6
			for _, g := range run.Glyphs {
				sum += g.XAdvance
			}
			if sum != run.Advance {
				t.Errorf("run %v: Advance %v but its glyph advances sum to %v", run.Runes, run.Advance, sum)
			}
		}
		if done {
			break
		}
	}
	k := 0
	for _, r := range runs {
		for _, g := range r.Glyphs {
			if g.XAdvance != before[k] {
				t.Errorf("wrapping modified the caller's glyph %d: advance %v -> %v", k, before[k], g.XAdvance)
			}
			k++
		}
	}
}
