package font

// Witness for C09: idRangeOffset is relative to its own position in the idRangeOffsets array, so
// indexStart = idRangeOffset/2 + i - segCount is negative for a small non-zero offset in an early segment; the
// length check passes and GlyphIDArray is sliced with a negative bound.
import (
	"testing"

	"github.com/go-text/typesetting/font/opentype/tables"
)

func TestVerifWitnessC09Cmap4NegativeIndex(t *testing.T) {
	defer func() {
		if r := recover(); r != nil {
			t.Errorf("newCmap4 panics: %v", r)
		}
	}()
	newCmap4(tables.CmapSubtable4{
		EndCode: []uint16{0x41, 0xFFFF}, StartCode: []uint16{0x41, 0xFFFF}, IdDelta: []uint16{0, 1}, IdRangeOffsets: []uint16{2, 0},
		GlyphIDArray: []byte{0, 1, 0, 2},
	})
}
