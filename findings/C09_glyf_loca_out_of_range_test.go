package font

// Witness for C09: the offsets of the 'loca' table are not validated against the length of 'glyf';
// tables.ParseGlyf slices the glyf data with them, so a font whose loca has an offset beyond the end of glyf (or
// decreasing offsets) makes NewFont panic instead of returning an error or a font without outlines.
import (
	"bytes"
	"testing"

	td "github.com/go-text/typesetting-utils/opentype"
	ot "github.com/go-text/typesetting/font/opentype"
)

func TestVerifWitnessC09GlyfLocaOutOfRange(t *testing.T) {
	file, err := td.Files.ReadFile("common/Roboto-BoldItalic.ttf")
	if err != nil {
		t.Skip(err)
	}
	ld, err := ot.NewLoader(bytes.NewReader(file))
	if err != nil {
		t.Skip(err)
	}
	var tbls []ot.Table
	for _, tag := range ld.Tables() {
		content, err := ld.RawTable(tag)
		if err != nil {
			t.Skip(err)
		}
		content = append([]byte(nil), content...)
		if tag == ot.MustNewTag("loca") && len(content) >= 8 {
			// second glyph: offset far beyond the end of glyf (both the short and the long format)
			content[4], content[5], content[6], content[7] = 0xFF, 0xFF, 0xFF, 0xF0
		}
		tbls = append(tbls, ot.Table{Tag: tag, Content: content})
	}
	corrupted := ot.WriteTTF(tbls)
	defer func() {
		if r := recover(); r != nil {
			t.Errorf("NewFont panics on a font with an out-of-range loca offset: %v", r)
		}
	}()
	ld2, err := ot.NewLoader(bytes.NewReader(corrupted))
	if err != nil {
		return
	}
	NewFont(ld2)
}
