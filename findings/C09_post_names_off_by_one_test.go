package font

// Witness for C09: postNames20.sanitize accepts a glyph name index equal to 258 + len(Strings) (one past the last
// custom name); glyphName then indexes Strings out of range (reached from Face.GlyphName).
import "testing"

func TestVerifWitnessC09PostNamesOffByOne(t *testing.T) {
	p := postNames20{GlyphNameIndexes: []uint16{uint16(numBuiltInPostNames)}, Strings: nil}
	if err := p.sanitize(); err != nil {
		return // rejected: fine
	}
	defer func() {
		if r := recover(); r != nil {
			t.Errorf("glyphName panics on a table accepted by sanitize: %v", r)
		}
	}()
	p.glyphName(0)
}
