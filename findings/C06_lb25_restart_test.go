package segmenter

// Witness for defect S-LB25 (candidate): UAX #14 LB25. After a closed numeric expression "1)", a following number "2,3"
// is a new numeric sequence NU (NU|SY|IS)*: no break is allowed between ',' (IS) and '3' (NU).
import "testing"

func TestVerifWitnessC06LB25Restart(t *testing.T) {
	text := []rune("1)2,3")
	var seg Segmenter
	seg.Init(text)
	it := seg.LineIterator()
	var got []string
	for it.Next() {
		got = append(got, string(it.Line().Text))
	}
	for _, l := range got {
		if l == "1)2," || l == "2," {
			t.Fatalf("line break between ',' and '3': lines %q", got)
		}
	}
}
