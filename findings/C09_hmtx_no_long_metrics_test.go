package tables

// Witness for C09: with numberOfHMetrics = 0 the 'hmtx' table only has side bearings; Hmtx.Advance then returns "the
// last value" of an empty metrics array.
import "testing"

func TestVerifWitnessC09HmtxNoLongMetrics(t *testing.T) {
	defer func() {
		if r := recover(); r != nil {
			t.Errorf("Advance panics on a table accepted by the parser: %v", r)
		}
	}()
	hmtx, _, err := ParseHmtx([]byte{0, 1, 0, 2}, 0, 2)
	if err != nil {
		t.Fatal(err)
	}
	hmtx.Advance(1)
}
