package font

// Witness for C09: the number of left side bearings of 'hmtx' is computed as numGlyphs - numberOfHMetrics and handed
// to the generated parser, which allocates with it: a font whose 'hhea' announces more long metrics than 'maxp' has
// glyphs makes NewFont panic (makeslice: len out of range).
import (
	"bytes"
	"encoding/binary"
	"testing"

	td "github.com/go-text/typesetting-utils/opentype"
	ot "github.com/go-text/typesetting/font/opentype"
)

func TestVerifWitnessC09HmtxNegativeCount(t *testing.T) {
	file, err := td.Files.ReadFile("common/Roboto-BoldItalic.ttf")
	if err != nil {
		t.Skip(err)
	}
	ld, err := ot.NewLoader(bytes.NewReader(file))
	if err != nil {
		t.Skip(err)
	}
	var tbls []ot.Table
	for _, tag := range ld.Tables() {
		content, err := ld.RawTable(tag)
		if err != nil {
			t.Skip(err)
		}
		content = append([]byte(nil), content...)
		if tag == ot.MustNewTag("maxp") && len(content) >= 6 {
			binary.BigEndian.PutUint16(content[4:], 1) // numGlyphs = 1, fewer than hhea.numberOfHMetrics
		}
		tbls = append(tbls, ot.Table{Tag: tag, Content: content})
	}
	corrupted := ot.WriteTTF(tbls)
	defer func() {
		if r := recover(); r != nil {
			t.Errorf("NewFont panics on a font with numberOfHMetrics > numGlyphs: %v", r)
		}
	}()
	ld2, err := ot.NewLoader(bytes.NewReader(corrupted))
	if err != nil {
		return
	}
	NewFont(ld2)
}
