package tables

// Witness for C09: the region indexes of an ItemVariationData subtable are not validated against the number of
// regions of the store; ItemVarStore.GetDelta (advance/metrics/anchor deltas of variable fonts) indexes the region list
// with them.
import (
	"encoding/binary"
	"testing"
)

func TestVerifWitnessC09VarStoreRegionIndex(t *testing.T) {
	var b []byte
	u16 := func(v uint16) { b = binary.BigEndian.AppendUint16(b, v) }
	u32 := func(v uint32) { b = binary.BigEndian.AppendUint32(b, v) }
	u16(1)  // format
	u32(12) // variationRegionListOffset
	u16(1)  // itemVariationDataCount
	u32(22) // itemVariationDataOffsets[0]
	// region list at 12: one axis, one region
	u16(1)
	u16(1)
	u16(0)
	u16(0x4000)
	u16(0x4000)
	// item variation data at 22: one item, no word deltas, one region index = 5 (only region 0 exists)
	u16(1)
	u16(0)
	u16(1)
	u16(5)
	b = append(b, 7) // the delta set
	store, _, err := ParseItemVarStore(b)
	if err != nil {
		return // rejected: fine
	}
	defer func() {
		if r := recover(); r != nil {
			t.Errorf("GetDelta panics on a store accepted by the parser: %v", r)
		}
	}()
	store.GetDelta(VariationStoreIndex{DeltaSetOuter: 0, DeltaSetInner: 0}, []Coord{0x2000})
}
