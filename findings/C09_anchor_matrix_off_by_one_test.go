package tables

// Witness for C09: AnchorMatrix.Anchor guards its two indices with `len < index`, which lets index == len through.
// The class comes from a mark record (MarkClass, not validated against the class count of the base array), so a mark
// whose class equals the class count makes GPOS mark attachment index one past the end.
import "testing"

func TestVerifWitnessC09AnchorMatrixOffByOne(t *testing.T) {
	am := AnchorMatrix{records: []anchorOffsets{{offsets: []Offset16{0, 0}}}, data: make([]byte, 8)}
	for _, c := range [][2]int{{0, 2}, {1, 0}} {
		func() {
			defer func() {
				if r := recover(); r != nil {
					t.Errorf("Anchor(%d, %d) on a 1x2 matrix panics: %v", c[0], c[1], r)
				}
			}()
			am.Anchor(c[0], c[1])
		}()
	}
}
