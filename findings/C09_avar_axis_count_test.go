package font

// Witness for C09: the number of segment maps of 'avar' is not checked against the number of axes of 'fvar';
// NormalizeVariations (reached from Face.SetVariations) indexes the normalized coordinates, one per fvar axis, with the
// avar axis index. Commissioner-VF re-written with one more avar segment map than it has axes.
import (
	"bytes"
	"encoding/binary"
	"testing"

	td "github.com/go-text/typesetting-utils/opentype"
	ot "github.com/go-text/typesetting/font/opentype"
)

func TestVerifWitnessC09AvarAxisCount(t *testing.T) {
	file, err := td.Files.ReadFile("common/Commissioner-VF.ttf")
	if err != nil {
		t.Skip(err)
	}
	ld, err := ot.NewLoader(bytes.NewReader(file))
	if err != nil {
		t.Skip(err)
	}
	var tbls []ot.Table
	for _, tag := range ld.Tables() {
		content, err := ld.RawTable(tag)
		if err != nil {
			t.Skip(err)
		}
		content = append([]byte(nil), content...)
		if tag == ot.MustNewTag("avar") && len(content) >= 8 {
			n := binary.BigEndian.Uint16(content[6:])
			binary.BigEndian.PutUint16(content[6:], n+1)
			// one more segment map: two value maps (-1 -> -1, 1 -> 1)
			content = append(content, 0, 2, 0xC0, 0, 0xC0, 0, 0x40, 0, 0x40, 0)
		}
		tbls = append(tbls, ot.Table{Tag: tag, Content: content})
	}
	ld2, err := ot.NewLoader(bytes.NewReader(ot.WriteTTF(tbls)))
	if err != nil {
		t.Skip(err)
	}
	ft, err := NewFont(ld2)
	if err != nil {
		return // rejected: fine
	}
	defer func() {
		if r := recover(); r != nil {
			t.Errorf("SetVariations panics for a font whose avar has more axes than fvar: %v", r)
		}
	}()
	face := NewFace(ft)
	face.SetVariations([]Variation{{Tag: ot.MustNewTag("wght"), Value: 900}})
}
