package font

// Witness for C09: Coverage.Len is documented as "1 + (maximum index returned)" and the sanitizers compare it with the
// length of the array the coverage indexes; for format 2 it summed the range sizes and ignored StartCoverageIndex, which
// comes from the file. A GDEF ligature caret list accepted by sanitizeGDEF then returns an index past its array
// (harfbuzz.Font.GetOTLigatureCarets indexes LigGlyphs with it).
import (
	"testing"

	"github.com/go-text/typesetting/font/opentype/tables"
)

func TestVerifWitnessC09Coverage2StartIndex(t *testing.T) {
	gdef := tables.GDEF{LigCaretList: tables.LigCaretList{
		Coverage:  tables.Coverage2{Ranges: []tables.RangeRecord{{StartGlyphID: 5, EndGlyphID: 5, StartCoverageIndex: 7}}},
		LigGlyphs: make([]tables.LigGlyph, 1),
	}}
	if err := sanitizeGDEF(gdef, 0); err != nil {
		return // rejected: fine
	}
	index, ok := gdef.LigCaretList.Coverage.Index(5)
	if ok && index >= len(gdef.LigCaretList.LigGlyphs) {
		t.Fatalf("accepted GDEF: coverage index %d for a list of %d ligature glyphs", index, len(gdef.LigCaretList.LigGlyphs))
	}
}
