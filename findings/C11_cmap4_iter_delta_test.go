package font

// Witness for defect S5a: in a format 4 segment that uses the glyph index array, cmap4.Lookup computes
// (entry + idDelta) modulo 65536 as the OpenType specification prescribes, but cmap4Iter.Char adds the delta in 32 bits,
// so enumeration and lookup disagree when entry + idDelta >= 65536.
import (
	"testing"

	"github.com/go-text/typesetting/font/opentype/tables"
)

func TestVerifWitnessC11Cmap4IterDelta(t *testing.T) {
	cm := cmap4{{start: 0x41, end: 0x41, delta: 2, indexes: []tables.GlyphID{0xFFFF}}}
	want, ok := cm.Lookup(0x41)
	if !ok {
		t.Fatal("Lookup should find 'A'")
	}
	it := cm.Iter()
	if !it.Next() {
		t.Fatal("empty iterator")
	}
	r, got := it.Char()
	if r != 0x41 || got != want {
		t.Fatalf("Iter yields (%#x, %#x) but Lookup(%#x) = %#x", r, got, r, want)
	}
}
