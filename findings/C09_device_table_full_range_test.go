package tables

// Witness for C09: the number of values of a hinting device table, endSize-startSize+1, is computed in uint16 and wraps
// to 0 for the range 0..0xFFFF: the table is accepted with no values and GetDelta indexes the empty slice.
import "testing"

func TestVerifWitnessC09DeviceTableFullRange(t *testing.T) {
	defer func() {
		if r := recover(); r != nil {
			t.Errorf("GetDelta panics on a device table accepted by the parser: %v", r)
		}
	}()
	// startSize 0, endSize 0xFFFF, deltaFormat 1, no data
	dev, err := parseDeviceTable([]byte{0, 0, 0xFF, 0xFF, 0, 1}, 0)
	if err != nil {
		return // rejected: fine
	}
	dev.(DeviceHinting).GetDelta(12, 1000)
}
