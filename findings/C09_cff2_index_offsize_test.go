package cff

// Witness for C09: a CFF2 INDEX whose offSize byte is 0 (or larger than 4) makes parseIndexContent call
// bigEndian with a slice of that length, which panics ("unreachable"); the CFF1 header parser validates
// offSize in 1..4, the CFF2 path (parseIndex2) does not.
import "testing"

func TestVerifWitnessC09Cff2IndexOffSize(t *testing.T) {
	for _, offSize := range []byte{0, 5} {
		func() {
			defer func() {
				if r := recover(); r != nil {
					t.Errorf("parseIndex2 panics on an INDEX with offSize %d: %v", offSize, r)
				}
			}()
			src := []byte{0, 0, 0, 1, offSize, 1, 1, 1, 1, 1, 1, 1, 1, 1, 1, 1, 1, 1, 1, 1}
			parseIndex2(src, 0)
		}()
	}
}
