package opentype

// Witness for C19 ("loading it returns exactly the same tags and byte contents"): io.Reader allows Read to return
// fewer bytes than asked for without an error. The sfnt magic and the 12-byte header were read with a single Read
// call whose byte count was ignored, so a Resource that delivers at most 3 bytes per Read (legal) made NewLoader
// misread a file WriteTTF had just produced.
import (
	"bytes"
	"testing"
)

type shortReadResource struct{ *bytes.Reader }

func (s shortReadResource) Read(p []byte) (int, error) {
	if len(p) > 3 {
		p = p[:3]
	}
	return s.Reader.Read(p)
}

func TestVerifWitnessC19ShortReadResource(t *testing.T) {
	tables := []Table{{Tag: MustNewTag("aaaa"), Content: []byte{1, 2, 3, 4}}, {Tag: MustNewTag("bbbb"), Content: []byte{5, 6}}}
	file := WriteTTF(tables)
	ld, err := NewLoader(shortReadResource{bytes.NewReader(file)})
	if err != nil {
		t.Fatalf("NewLoader on a resource with short reads: %v", err)
	}
	tags := ld.Tables()
	if len(tags) != 2 || tags[0] != tables[0].Tag || tags[1] != tables[1].Tag {
		t.Fatalf("tags read back: %v", tags)
	}
	for _, tb := range tables {
		content, err := ld.RawTable(tb.Tag)
		if err != nil || !bytes.Equal(content, tb.Content) {
			t.Fatalf("table %v: content %v, error %v", tb.Tag, content, err)
		}
	}
}
