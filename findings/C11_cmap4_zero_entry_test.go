package font

// Witness for known finding S5b: a format 4 segment with a glyph index array containing 0 ("missing glyph" in the
// OpenType specification): Lookup reports the rune as unmapped, but the iterator yields it (with glyph 0) and
// RuneRanges covers it, so enumeration/coverage and lookup disagree.
import (
	"testing"

	"github.com/go-text/typesetting/font/opentype/tables"
)

func TestVerifWitnessC11Cmap4ZeroEntry(t *testing.T) {
	cm := cmap4{{start: 0x41, end: 0x42, delta: 0, indexes: []tables.GlyphID{0, 7}}}
	_, ok := cm.Lookup(0x41)
	it := cm.Iter()
	if !it.Next() {
		t.Fatal("empty iterator")
	}
	r, g := it.Char()
	if r == 0x41 && !ok {
		t.Fatalf("Iter yields (%#x, %d) but Lookup(%#x) reports the rune as unmapped", r, g, r)
	}
}
