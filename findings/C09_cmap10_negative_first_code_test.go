package font

// Witness for C09/C11: the start code of a format 10 cmap is an uint32 stored in a rune; for values >= 0x80000000 it
// is negative, `r - s.firstCode` overflows int32 and Lookup indexes the glyph array with a negative value.
import (
	"testing"

	"github.com/go-text/typesetting/font/opentype/tables"
)

func TestVerifWitnessC09Cmap10NegativeFirstCode(t *testing.T) {
	defer func() {
		if r := recover(); r != nil {
			t.Errorf("cmap format 10 with StartCharCode 0x80000000: Lookup('a') panics: %v", r)
		}
	}()
	cm := newCmap10(tables.CmapSubtable10{StartCharCode: 0x80000000, GlyphIdArray: []tables.GlyphID{1, 2, 3}})
	if _, ok := cm.Lookup('a'); ok {
		t.Errorf("'a' is reported as mapped")
	}
}
