package font

// Witness for C09: a format 4 segment covering 0..0xFFFF with a non-zero idRangeOffset: the length of the resolved
// index array, end-start+1, is computed in uint16 and wraps to 0, so newCmap4 accepts the subtable with an empty
// (non-nil) index array and every later Lookup in the segment indexes it out of range.
import (
	"testing"

	"github.com/go-text/typesetting/font/opentype/tables"
)

func TestVerifWitnessC09Cmap4FullSegment(t *testing.T) {
	defer func() {
		if r := recover(); r != nil {
			t.Errorf("Lookup panics on a cmap accepted by newCmap4: %v", r)
		}
	}()
	cm, err := newCmap4(tables.CmapSubtable4{
		EndCode: []uint16{0xFFFF}, StartCode: []uint16{0}, IdDelta: []uint16{0}, IdRangeOffsets: []uint16{2},
	})
	if err != nil {
		return // rejected: fine
	}
	cm.Lookup('A')
}
