#!/bin/bash
# usage: tools_mutant_try.sh <prop> <file-relative-to-repo> <sed-expression>
# applies an ad-hoc textual mutation to a scratch copy of /repo and runs the quick check of <prop> on it (sanity test of a contract)
prop=$1; file=$2; expr=$3
scratch=$(mktemp -d /var/tmp/govc-mut.XXXXXX); trap 'rm -rf $scratch' EXIT
rsync -a --exclude .git /repo/ $scratch/repo/; mkdir -p $scratch/out
sed -i "$expr" $scratch/repo/$file
if diff -q /repo/$file $scratch/repo/$file >/dev/null; then echo "mutation changed nothing"; exit 2; fi
diff /repo/$file $scratch/repo/$file | head -6
(cd $scratch/repo && GOFLAGS=-mod=mod GOPROXY=off GOSUMDB=off GOTOOLCHAIN=local go build ./... ) || { echo "does not compile"; exit 2; }
GOVC_REPO=$scratch/repo GOVC_OUT=$scratch/out /verif/bin/govc check $prop quick 2>&1 | grep "^VIOLATION\|^property" | sed 's/replay=[^ ]* //' | head -5
