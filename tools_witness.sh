#!/bin/bash
# usage: tools_witness.sh <witness_test.go> <pkgdir> ; runs the witness in-package through an overlay (nothing written to /repo)
export GOFLAGS=-mod=mod GOPROXY=off GOSUMDB=off GOTOOLCHAIN=local
w=$(realpath $1); pkg=$2; ov=$(mktemp /var/tmp/ov.XXXXXX.json)
echo "{\"Replace\": {\"/repo/$pkg/zz_verif_witness_test.go\": \"$w\"}}" > $ov
cd /repo && go test -overlay $ov -vet=off -count=1 -timeout 120s -run 'TestVerifWitness' ./$pkg; rc=$?
rm -f $ov; exit $rc
