#!/bin/bash
# runs every registered quick check on the current tree (regenerates all evidence files)
cd /verif
for p in $(python3 -c "import json; print(' '.join(c['property_id'] for c in json.load(open('MANIFEST.json'))['checks']))"); do
  bin/check $p quick | tail -1
done
