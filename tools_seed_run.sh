#!/bin/bash
# usage: tools_seed_run.sh <seed-name> [prop]  : applies /verif/seeded/<name>/patch.diff to /repo, runs the check, reverts.
name=$1; prop=${2:-${name%%-*}}
cd /repo || exit 2
if [ -n "$(git status --porcelain)" ]; then echo "/repo not clean"; exit 2; fi
git apply /verif/seeded/$name/patch.diff || { echo "patch does not apply"; exit 2; }
cp /verif/evidence/$prop.json /tmp/evidence-keep-$prop.json 2>/dev/null
/verif/bin/check $prop quick > /tmp/seedrun-$name.log 2>&1; rc=$?
git checkout -- . ; git clean -fdq
# the evidence file must describe the unchanged tree: put the previous one back
cp /tmp/evidence-keep-$prop.json /verif/evidence/$prop.json 2>/dev/null; rm -f /tmp/evidence-keep-$prop.json
nv=$(grep -c '^VIOLATION' /tmp/seedrun-$name.log)
echo "$name -> check $prop rc=$rc violations=$nv"
grep '^VIOLATION' /tmp/seedrun-$name.log | sed 's/replay=[^ ]* //' | head -4
